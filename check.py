#!/venv/bin/python
"""Entry point of the deterministic-simulation checks for score-analysis.

  check.py <Cxx> [--tier quick|thorough] [--seed N] [--workers N] [--runs N]
  check.py replay <file> [--quiet]
  check.py digest <Cxx> --indices a,b,c [--workers N] [--stat]
  check.py gen <Cxx> --index i [--tier t]        (print one scenario)
  check.py run1 <Cxx> --index i [--tier t]       (execute one scenario verbosely)
  check.py selftest-mutants [--only name] [--props C11,C12]
"""
import os
import sys

sys.path.insert(0, os.path.dirname(os.path.abspath(__file__)))
from simkit import boot  # noqa: E402

boot.ensure_env()

import argparse  # noqa: E402
import json  # noqa: E402


def main():
    ap = argparse.ArgumentParser()
    ap.add_argument("cmd")
    ap.add_argument("arg", nargs="?")
    ap.add_argument("--tier", default=os.environ.get("VERIF_TIER", "quick"))
    ap.add_argument("--seed", type=int, default=int(os.environ.get("VERIF_SEED", "0")))
    ap.add_argument("--workers", type=int, default=None)
    ap.add_argument("--runs", type=int, default=None)
    ap.add_argument("--budget", type=float, default=None)
    ap.add_argument("--indices", default="")
    ap.add_argument("--index", type=int, default=0)
    ap.add_argument("--stat", action="store_true")
    ap.add_argument("--quiet", action="store_true")
    ap.add_argument("--only", default=None)
    ap.add_argument("--props", default=None)
    a = ap.parse_args()
    if a.tier not in ("quick", "thorough"):
        a.tier = "quick"

    from simkit import runner

    if a.cmd in runner.PROPS:
        return runner.run_check(a.cmd, a.tier, a.seed, workers=a.workers, runs=a.runs, budget_s=a.budget)
    if a.cmd == "replay":
        return runner.cmd_replay(a.arg, quiet=a.quiet)
    if a.cmd == "digest":
        idx = [int(x) for x in a.indices.split(",") if x != ""]
        return runner.cmd_digest(a.arg, a.tier, a.seed, idx, a.workers or 2, stat=a.stat)
    if a.cmd in ("gen", "run1"):
        mod = runner.prop_module(a.arg)
        if a.stat:
            scn = mod.stat_scenario(a.seed, a.index, a.tier)
            scn["property"] = a.arg
        else:
            scn = runner.generate(mod, a.arg, a.seed, a.index, a.tier)
        if a.cmd == "gen":
            print(json.dumps(scn, indent=1))
            return 0
        res = runner.execute(mod, scn)
        print(json.dumps({k: v for k, v in res.items() if k != "trace"}, indent=1, default=str))
        if not a.quiet:
            for ev in res["trace"][:200]:
                print(json.dumps(ev, default=str))
        return 1 if res["violations"] else 0
    if a.cmd == "self-check":
        # end-to-end canary: a planted violation must come out as exit 1 + VIOLATION + reproducing replay
        import contextlib
        import io
        import shutil
        import tempfile

        tmp = tempfile.mkdtemp(prefix="simkit-canary-")
        os.environ["VERIF_REPLAY_DIR"] = os.path.join(tmp, "replays")
        os.environ["VERIF_EVIDENCE_DIR"] = os.path.join(tmp, "evidence")
        buf = io.StringIO()
        try:
            with contextlib.redirect_stdout(buf):
                rc = runner.run_check("CANARY", "quick", 0, workers=2)
            out = buf.getvalue()
            vl = [ln for ln in out.splitlines() if ln.startswith("VIOLATION property=CANARY replay=")]
            ok = rc == 1 and len(vl) == 1 and "invariant=CANARY.planted" in out
            if ok:
                rep = json.load(open(vl[0].split("replay=")[1].strip()))
                ok = rep["scenario"]["x"] % 7 == 3 and rep["scenario"]["pad"] == [] and rep["scenario"]["x"] < 7
            print("self-check:", "ok - planted violation reported, minimised and replayed" if ok else "FAILED\n" + out)
            from simkit import leak

            dead = leak.self_test()
            print("self-check: state-leak probes", "ok - all work under the baseline state" if not dead else "FAILED " + "; ".join(dead))
            return 0 if ok and not dead else 2
        finally:
            shutil.rmtree(tmp, ignore_errors=True)
    if a.cmd == "selftest-mutants":
        from simkit import selftest

        return selftest.main(only=a.only, props=a.props)
    ap.error(f"unknown command {a.cmd}")


if __name__ == "__main__":
    try:
        rc = main()
    except SystemExit:
        raise
    except BaseException:  # noqa: BLE001 - an uncaught harness failure must not look like a verdict
        import traceback

        traceback.print_exc()
        print("HARNESS-ERROR uncaught exception in the harness")
        rc = 2
    sys.exit(rc)
