"""Evidence file writer; validates against the harness schema before returning."""

import json
import os

from . import boot

SCHEMA = os.path.join(boot.VERIF_DIR, "schemas", "EVIDENCE.schema.json")


def _trim(x, depth=0):
    """Keeps samples readable: long arrays are cut, structure kept."""
    if isinstance(x, dict):
        return {k: _trim(v, depth + 1) for k, v in x.items()}
    if isinstance(x, list):
        if len(x) > 12 and all(not isinstance(v, (dict, list)) for v in x):
            return x[:10] + [f"... {len(x) - 10} more"]
        if len(x) > 12:
            return [_trim(v, depth + 1) for v in x[:10]] + [f"... {len(x) - 10} more"]
        return [_trim(v, depth + 1) for v in x]
    return x


def write_evidence(*, prop, tier, seed, mod, agg, sigs, states, samples, det, wall, wall_main,
                   truncated, planned_runs, known_hit, reported, n_violation_runs, workers, errors):
    runs = agg["runs"]
    cov = {
        "evaluations": int(runs),
        "distinct_nontrivial": int(len(sigs)),
        "rule": mod.RULE,
        "samples": [_trim(s) for s in samples] or [{"note": "no run completed"}],
        "planned_evaluations": int(planned_runs),
        "truncated_by_budget": bool(truncated),
        "runs_per_hour": round(runs / max(wall_main, 1e-9) * 3600),
        "workers": workers,
        "seeds": {"verif_seed": seed, "derivation": "run_seed = SHA-256('{VERIF_SEED}:{property}:{index}')[:16]",
                  "first_index": 0, "last_index": max(0, planned_runs - 1)},
        "logical_steps": {k: int(v) for k, v in agg["stats"].items()},
        "simulated_time": "n/a - the system under test has no clock, timer or deadline; logical steps are reported instead",
        "faults_fired": dict(sorted(agg["faults"].items())),
        "probes": dict(sorted(agg["probes"].items())),
        "probes_stuck_at_zero": sorted(p for p in getattr(mod, "PROBES", []) if agg["probes"].get(p, 0) == 0),
        "distinct_state_signatures": int(len(states)),
        "statistical_tests": {"count": int(agg["stat_tests"]), "delta_each": getattr(mod, "DELTA", None),
                              "union_bound": (agg["stat_tests"] * mod.DELTA) if getattr(mod, "DELTA", None) else None},
        "determinism_selftest": det,
        "components": getattr(mod, "COMPONENTS", {}),
        "known_findings_hit": known_hit,
        "violations_reported": reported,
        "violation_runs": int(n_violation_runs),
        "harness_errors": int(errors),
        "repo": boot.REPO,
    }
    ev = {
        "property_id": prop,
        "tier": tier,
        "seed": int(seed),
        "level": "exploration",
        "coverage": cov,
        "assumptions": list(getattr(mod, "ASSUMPTIONS", [])) + [
            "CPython single-threaded execution; numpy/scipy/pandas as installed in /venv are trusted",
            "forced draw outcomes are restricted to the support of the distribution the library requested",
            "a clean batch is evidence proportional to the counts above, not a proof",
        ],
        "wall_s": round(wall, 3),
        "violations": int(len(reported)),
    }
    d = os.environ.get("VERIF_EVIDENCE_DIR") or os.path.join(boot.VERIF_DIR, "evidence")
    os.makedirs(d, exist_ok=True)
    path = os.path.join(d, f"{prop}.json")
    ok = True
    try:
        import jsonschema

        with open(SCHEMA) as f:
            schema = json.load(f)
        jsonschema.validate(json.loads(json.dumps(ev, default=str)), schema)
    except ImportError:
        pass
    except FileNotFoundError:
        pass
    except Exception as e:  # schema violation
        print(f"evidence validation failed: {e}")
        ok = False
    with open(path, "w") as f:
        json.dump(ev, f, indent=1, sort_keys=True, default=str)
    return ok
