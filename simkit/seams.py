"""Seams through which the simulator owns nondeterminism and injects faults.

* RngSeam       - the process-global NumPy RNG as seen by library code
* SimGenerator  - stand-in for an explicit `rng=` argument (datasets)
* Tracer        - line-event interrupts inside library frames
"""

import sys

import numpy as np


class SimInterrupt(BaseException):
    """KeyboardInterrupt-like asynchronous exception raised inside a library frame."""


class OpTimeout(BaseException):
    pass


NOT_APPLICABLE = object()

_RNG_FUNCS = [
    "binomial", "poisson", "choice", "normal", "randint", "random", "random_sample",
    "rand", "randn", "uniform", "shuffle", "permutation", "multinomial",
    "standard_normal", "exponential", "geometric", "hypergeometric", "beta", "gamma",
    "ranf", "sample", "bytes", "random_integers", "negative_binomial", "laplace",
    "lognormal", "triangular", "multivariate_normal", "dirichlet",
]
# Only the function is replaced: RandomState / SeedSequence are classes that numpy itself uses in
# isinstance checks.  Entropy taken through them is still caught, as nondeterminism, by the
# determinism legs and by C14's in-run reproducibility check.
_ENTROPY_FUNCS = ["default_rng"]


def _size_tuple(size):
    if size is None:
        return None
    if isinstance(size, (int, np.integer)):
        return (int(size),)
    return tuple(int(s) for s in size)


def _binom_legal(v, n, p):
    v = np.asarray(v)
    ok = (v >= 0) & (v <= n)
    if not (p > 0):
        ok &= v == 0
    if not (p < 1):
        ok &= v == n
    return bool(np.all(ok))


def forced_outcome(kind, fn, args, kwargs):
    """Returns a value that lies in the support of the requested distribution given
    the arguments the library passed, or NOT_APPLICABLE."""
    try:
        if fn == "binomial":
            a = list(args)
            n = kwargs["n"] if "n" in kwargs else a.pop(0)
            p = kwargs["p"] if "p" in kwargs else a.pop(0)
            size = kwargs["size"] if "size" in kwargs else (a.pop(0) if a else None)
            if np.ndim(n) != 0 or np.ndim(p) != 0:
                return NOT_APPLICABLE
            n = int(n)
            p = float(p)
            size = _size_tuple(size)
            if size is None:
                v = {
                    "binom_zero": 0,
                    "binom_all": n,
                    "binom_one": 1,
                    "binom_allbutone": n - 1,
                }.get(kind)
                if v is None or not _binom_legal(v, n, p):
                    return NOT_APPLICABLE
                return v
            if len(size) != 1:
                return NOT_APPLICABLE
            v = _mult_vector(kind, size[0], cap=n)
            if v is None or not _binom_legal(v, n, p):
                return NOT_APPLICABLE
            return v
        if fn == "poisson":
            a = list(args)
            lam = kwargs["lam"] if "lam" in kwargs else (a.pop(0) if a else 1.0)
            size = kwargs["size"] if "size" in kwargs else (a.pop(0) if a else None)
            if np.ndim(lam) != 0:
                return NOT_APPLICABLE
            size = _size_tuple(size)
            if size is None or len(size) != 1:
                return NOT_APPLICABLE
            v = _mult_vector(kind, size[0], cap=None)
            if v is None:
                return NOT_APPLICABLE
            if not (float(lam) > 0) and np.any(v != 0):
                return NOT_APPLICABLE
            return v
        if fn == "choice":
            a = list(args)
            pop = kwargs["a"] if "a" in kwargs else a.pop(0)
            size = kwargs["size"] if "size" in kwargs else (a.pop(0) if a else None)
            replace = kwargs["replace"] if "replace" in kwargs else (
                a.pop(0) if a else True
            )
            p = kwargs["p"] if "p" in kwargs else (a.pop(0) if a else None)
            size = _size_tuple(size)
            if size is None or len(size) != 1:
                return NOT_APPLICABLE
            k = size[0]
            if np.ndim(pop) == 0:
                n = int(pop)
                values = None
            else:
                values = np.asarray(pop)
                if values.ndim != 1:
                    return NOT_APPLICABLE
                n = len(values)
            if n <= 0 or k <= 0:
                return NOT_APPLICABLE
            if p is not None:
                p = np.asarray(p, dtype=float)
                if kind != "category_constant":
                    return NOT_APPLICABLE
                allowed = np.nonzero(p > 0)[0]
                if len(allowed) == 0:
                    return NOT_APPLICABLE
                # which admissible category: carried in the kind's argument
                c = int(allowed[kwargs.get("_which", 0) % len(allowed)])
                idx = np.full(k, c, dtype=np.int64)
            elif replace:
                i = np.arange(k, dtype=np.int64)
                idx = {
                    "choice_first": np.zeros(k, dtype=np.int64),
                    "choice_last": np.full(k, n - 1, dtype=np.int64),
                    "choice_cyclic": i % n,
                    "choice_reversed": n - 1 - (i % n),
                }.get(kind)
                if idx is None:
                    return NOT_APPLICABLE
            else:
                if k > n:
                    return NOT_APPLICABLE
                idx = {
                    "subset_first": np.arange(k, dtype=np.int64),
                    "subset_last": np.arange(n - k, n, dtype=np.int64),
                    "subset_last_reversed": np.arange(n - 1, n - k - 1, -1, dtype=np.int64),
                }.get(kind)
                if idx is None:
                    return NOT_APPLICABLE
            return idx if values is None else values[idx]
        if fn == "normal":
            a = list(args)
            loc = kwargs["loc"] if "loc" in kwargs else (a.pop(0) if a else 0.0)
            scale = kwargs["scale"] if "scale" in kwargs else (a.pop(0) if a else 1.0)
            size = kwargs["size"] if "size" in kwargs else (a.pop(0) if a else None)
            size = _size_tuple(size)
            if size is None or len(size) != 1:
                return NOT_APPLICABLE
            if np.ndim(loc) != 0 or np.ndim(scale) != 0:
                return NOT_APPLICABLE
            if not np.isfinite(scale) or not np.isfinite(loc) or scale < 0:
                return NOT_APPLICABLE
            k = size[0]
            if kind == "normal_zeros":
                return np.full(k, float(loc))
            if kind == "normal_alternating":
                sign = np.where(np.arange(k) % 2 == 0, 1.0, -1.0)
                return float(loc) + float(scale) * sign
            return NOT_APPLICABLE
    except (IndexError, KeyError, TypeError, ValueError):
        return NOT_APPLICABLE
    return NOT_APPLICABLE


def _mult_vector(kind, k, cap):
    """Multiplicity vectors for single-pass sampling draws."""
    if k <= 0:
        return None
    if kind == "mult_zeros":
        return np.zeros(k, dtype=np.int64)
    if kind == "mult_ones":
        v = np.ones(k, dtype=np.int64)
    elif kind == "mult_onehot_first":
        v = np.zeros(k, dtype=np.int64)
        v[0] = k if cap is None else min(k, cap)
    elif kind == "mult_onehot_last":
        v = np.zeros(k, dtype=np.int64)
        v[-1] = k if cap is None else min(k, cap)
    elif kind == "mult_alternating":
        v = np.where(np.arange(k) % 2 == 0, 0, 2).astype(np.int64)
    else:
        return None
    if cap is not None and np.any(v > cap):
        return None
    return v


def _summ(x):
    """Compact, deterministic description of a draw argument/result for the log."""
    if isinstance(x, np.ndarray):
        if x.size <= 6:
            return [_summ(v) for v in x.tolist()]
        return f"nd{list(x.shape)}"
    if isinstance(x, (np.integer,)):
        return int(x)
    if isinstance(x, (np.floating,)):
        return float(x)
    if isinstance(x, (int, float, str, bool)) or x is None:
        return x
    if isinstance(x, (list, tuple)):
        return [_summ(v) for v in x][:6]
    return type(x).__name__


class RngSeam:
    """Replaces the module-level functions of numpy.random.  Calls made from library
    frames are logged and either forwarded to the real global RandomState (faithful
    path) or answered with a planned, legal outcome."""

    def __init__(self, pkg_dir):
        self.pkg_dir = pkg_dir
        self.real = {}
        self.installed = False
        self.entropy_seed = 0
        self.reset_totals()
        self.begin_op([])

    def reset_totals(self):
        self.entropy_seed = 0  # answers to entropy requests are a function of the run, not of the process history
        self.total_draws = 0
        self.total_forced = 0
        self.fired_by_kind = {}
        self.entropy_requests = 0

    # -- installation -----------------------------------------------------
    def install(self):
        if self.installed:
            return
        for name in _RNG_FUNCS:
            if hasattr(np.random, name):
                self.real[name] = getattr(np.random, name)
                setattr(np.random, name, self._wrap(name))
        for name in _ENTROPY_FUNCS:
            self.real[name] = getattr(np.random, name)
            setattr(np.random, name, self._wrap_entropy(name))
        self.installed = True

    def uninstall(self):
        for name, f in self.real.items():
            setattr(np.random, name, f)
        self.installed = False

    # -- per-operation plan ----------------------------------------------
    def begin_op(self, plan):
        self.plan_at = {}
        self.plan_every = []
        for f in plan or []:
            if "at" in f:
                self.plan_at.setdefault(int(f["at"]), []).append(f)
            elif "every" in f:
                self.plan_every.append(f)
        self.ordinal = 0
        self.log = []
        self.fired = []
        self.library_draws = 0

    def end_op(self):
        return {"draws": self.library_draws, "log": self.log, "fired": self.fired}

    def _from_library(self, depth=2):
        f = sys._getframe(depth)
        return f.f_code.co_filename.startswith(self.pkg_dir), f.f_code.co_name

    def _wrap(self, name):
        real = self.real[name]
        seam = self

        def wrapper(*args, **kwargs):
            inlib, caller = seam._from_library()
            if not inlib:
                return real(*args, **kwargs)
            k = seam.ordinal
            seam.ordinal += 1
            seam.library_draws += 1
            seam.total_draws += 1
            faults = list(seam.plan_at.get(k, ()))
            for f in seam.plan_every:
                if f.get("fn", name) == name and k >= f.get("offset", 0) and (
                    (k - f.get("offset", 0)) % max(1, int(f["every"])) == 0
                ):
                    faults.append(f)
            result = NOT_APPLICABLE
            tag = None
            for f in faults:
                kind = f["kind"]
                if kind == "interference":
                    # a neighbour sharing the global stream draws between two of ours
                    seam.real["random_sample"](int(f.get("k", 1)))
                    seam._fire(kind, k)
                    continue
                if result is NOT_APPLICABLE:
                    kw = dict(kwargs)
                    if "which" in f:
                        kw["_which"] = f["which"]
                    out = forced_outcome(kind, name, args, kw)
                    if out is not NOT_APPLICABLE:
                        result = out
                        tag = kind
                        seam._fire(kind, k)
                        seam.total_forced += 1
            if result is NOT_APPLICABLE:
                result = real(*args, **kwargs)
            if len(seam.log) < 64:
                seam.log.append(
                    [k, name, caller, _summ(list(args)), {a: _summ(b) for a, b in kwargs.items()}, _summ(result) if np.ndim(result) == 0 else f"nd{list(np.shape(result))}", tag]
                )
            return result

        wrapper.__name__ = name
        return wrapper

    def _wrap_entropy(self, name):
        real = self.real[name]
        seam = self

        def wrapper(*args, **kwargs):
            inlib, caller = seam._from_library()
            if not inlib:
                return real(*args, **kwargs)
            if (not args or args[0] is None) and not kwargs:
                # Library code asked the OS for entropy.  Answer deterministically and
                # record the request: bootstrap code must not do this (C14), dataset
                # code legitimately does when no rng is passed (C20).
                seam.entropy_requests += 1
                seam.entropy_seed += 1
                seam.log.append([seam.ordinal, name, caller, "ENTROPY", {}, None, None])
                if name == "default_rng":
                    return real(seam.entropy_seed)
                if name == "RandomState":
                    return real(seam.entropy_seed)
                return real(seam.entropy_seed)
            return real(*args, **kwargs)

        wrapper.__name__ = name
        return wrapper

    def _fire(self, kind, k):
        self.fired.append([k, kind])
        self.fired_by_kind[kind] = self.fired_by_kind.get(kind, 0) + 1

    # -- faithful stream control ------------------------------------------
    def seed(self, s):
        np.random.seed(int(s) % (2**32))

    def get_state(self):
        return np.random.get_state()

    def set_state(self, st):
        np.random.set_state(st)


class GeneratorFault(Exception):
    """Planned failure of a generator call (a misbehaving user-supplied rng)."""


class SimGenerator:
    """Stand-in for `rng: np.random.Generator`.  Faithful calls go to a real seeded
    Generator; planned calls return adversarial but admissible outcomes; a planned
    `raise` makes the k-th call of the generator fail."""

    def __init__(self, seed, plan=None):
        self._g = np.random.Generator(np.random.PCG64(int(seed)))
        self.plan = {}
        self.raise_at = None
        for f in plan or []:
            if f.get("kind") == "rng_raise":
                self.raise_at = int(f.get("call", 0))
                continue
            self.plan.setdefault(f["fn"], []).append(f)
        self.calls = []
        self.fired = []
        self.n_calls = 0

    def _maybe_raise(self):
        k = self.n_calls
        self.n_calls += 1
        if self.raise_at is not None and k == self.raise_at:
            self.fired.append("rng_raise")
            raise GeneratorFault(f"planned failure of generator call {k}")

    def _planned(self, fn):
        lst = self.plan.get(fn)
        if not lst:
            return None
        nth = sum(1 for c in self.calls if c[0] == fn)
        for f in lst:
            if f.get("nth", "all") in ("all", nth):
                return f
        return None

    def binomial(self, n, p, size=None):
        self._maybe_raise()
        f = self._planned("binomial")
        out = NOT_APPLICABLE
        if f is not None:
            out = forced_outcome(f["kind"], "binomial", (n, p), {"size": size})
            if out is NOT_APPLICABLE and size is not None and f["kind"] in ("binom_zero", "binom_all"):
                v = 0 if f["kind"] == "binom_zero" else int(n)
                if _binom_legal(v, int(n), float(p)):
                    out = np.full(_size_tuple(size), v, dtype=np.int64)
        if out is NOT_APPLICABLE:
            out = self._g.binomial(n, p, size=size)
        else:
            self.fired.append(f["kind"])
        self.calls.append(("binomial", _summ(n), _summ(p), _summ(out)))
        return out

    def normal(self, loc=0.0, scale=1.0, size=None):
        self._maybe_raise()
        f = self._planned("normal")
        out = NOT_APPLICABLE
        if f is not None:
            out = forced_outcome(f["kind"], "normal", (), {"loc": loc, "scale": scale, "size": size})
        if out is NOT_APPLICABLE:
            out = self._g.normal(loc=loc, scale=scale, size=size)
        else:
            self.fired.append(f["kind"])
        self.calls.append(("normal", _summ(loc), _summ(scale), _summ(size)))
        self.last_normals = getattr(self, "last_normals", []) + [np.array(out, copy=True)]
        return out

    def choice(self, a, size=None, replace=True, p=None, **kw):
        self._maybe_raise()
        f = self._planned("choice")
        out = NOT_APPLICABLE
        if f is not None:
            out = forced_outcome(
                f["kind"], "choice", (a,), {"size": size, "replace": replace, "p": p, "_which": f.get("which", 0)}
            )
        if out is NOT_APPLICABLE:
            out = self._g.choice(a, size=size, replace=replace, p=p, **kw)
        else:
            self.fired.append(f["kind"])
        self.calls.append(("choice", _summ(a), _summ(size), _summ(out)))
        return out

    def shuffle(self, x, **kw):
        self._maybe_raise()
        f = self._planned("shuffle")
        if f is not None and f["kind"] == "shuffle_identity":
            self.fired.append(f["kind"])
        elif f is not None and f["kind"] == "shuffle_reverse":
            x[:] = x[::-1].copy()
            self.fired.append(f["kind"])
        elif f is not None and f["kind"] == "shuffle_rotate":
            r = int(f.get("k", 1)) % max(1, len(x))
            x[:] = np.roll(x, r)
            self.fired.append(f["kind"])
        else:
            self._g.shuffle(x, **kw)
        self.calls.append(("shuffle", len(x)))

    def random(self, size=None, **kw):
        """Uniform variates on [0, 1): the planned outcomes are the two ends of the support, 0.0 and the largest double
        below 1 (an implementation that builds another distribution from uniforms must cope with both)."""
        self._maybe_raise()
        f = self._planned("random")
        if f is not None and f["kind"] in ("uniform_max", "uniform_zero"):
            v = 1.0 - 2.0 ** -53 if f["kind"] == "uniform_max" else 0.0
            out = v if size is None else np.full(_size_tuple(size), v)
            self.fired.append(f["kind"])
        else:
            out = self._g.random(size, **kw)
        self.calls.append(("random", _summ(size), _summ(out)))
        return out

    def __getattr__(self, name):
        return getattr(self._g, name)


class Tracer:
    """Counts line events in library frames and optionally raises at the k-th."""

    def __init__(self, pkg_dir):
        self.pkg_dir = pkg_dir
        self.count = 0
        self.at = None
        self.exc = None
        self.fired = False
        self.cap = 5_000_000

    def _global(self, frame, event, arg):
        if frame.f_code.co_filename.startswith(self.pkg_dir):
            return self._local
        return None

    def _local(self, frame, event, arg):
        if event == "line":
            self.count += 1
            if self.count == self.at:
                self.fired = True
                raise self.exc(f"simkit interrupt at line event {self.count} "
                               f"({frame.f_code.co_name}:{frame.f_lineno})")
            if self.count > self.cap:
                raise OpTimeout("line-event cap exceeded")
        return self._local

    def run(self, fn, at=None, exc=SimInterrupt):
        """Runs fn() under tracing. Returns (ok, value_or_exception, line_events, fired)."""
        self.count = 0
        self.at = at
        self.exc = exc
        self.fired = False
        old = sys.gettrace()
        sys.settrace(self._global)
        try:
            try:
                v = fn()
                ok = True
            except OpTimeout:
                raise
            except BaseException as e:  # noqa: BLE001 - the simulator owns all outcomes
                if isinstance(e, (KeyboardInterrupt, SystemExit)):
                    raise
                v = e
                ok = False
        finally:
            sys.settrace(old)
        return ok, v, self.count, self.fired
