"""Generic candidate generators for scenario minimisation (delta debugging style).
All functions yield *new* objects; callers splice them into a deep copy."""

import copy


def drop_chunks(lst, min_len=0):
    """Yields shorter versions of lst: halves, quarters, ..., single removals."""
    n = len(lst)
    if n <= min_len:
        return
    size = max(1, n // 2)
    seen = set()
    while size >= 1:
        for start in range(0, n, size):
            cand = lst[:start] + lst[start + size:]
            if len(cand) >= min_len:
                key = (start, size)
                if key not in seen:
                    seen.add(key)
                    yield cand
        if size == 1:
            break
        size //= 2


def simplify_numbers(values):
    """Candidate simplifications of a numeric list (same length)."""
    if not values or any(isinstance(v, float) and (v != v or v in (float("inf"), float("-inf"))) for v in values):
        return  # NaN / infinite entries are what the scenario is about: leave the numbers alone
    order = sorted(set(values))
    rank = {v: float(i) for i, v in enumerate(order)}
    cand = [rank[v] for v in values]
    if cand != values:
        yield cand
    cand = [float(round(v)) for v in values]
    if cand != values:
        yield cand


def with_path(scn, path, value):
    """Deep copy of scn with scn[path...] = value."""
    out = copy.deepcopy(scn)
    cur = out
    for p in path[:-1]:
        cur = cur[p]
    cur[path[-1]] = value
    return out


def get_path(scn, path):
    cur = scn
    for p in path:
        cur = cur[p]
    return cur


def shrink_int(v, lo=0):
    """Smaller integers to try, most aggressive first."""
    seen = set()
    for c in (lo, lo + 1, v // 2, v - 1):
        if lo <= c < v and c not in seen:
            seen.add(c)
            yield c
