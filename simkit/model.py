"""Shared pieces of the reference models: canonical result digests, fingerprints of
objects and caller arrays, object builders from scenario specs, direct counting,
and an independent implementation of the documented bootstrap CI formulas."""

import hashlib
import json
import math

import numpy as np

from .boot import lib

# --------------------------------------------------------------------------
# JSON <-> arrays


def enc_array(a):
    a = np.asarray(a)
    if a.dtype.kind in "US":
        return {"dtype": "str", "shape": list(a.shape), "data": [str(x) for x in a.reshape(-1).tolist()]}
    if a.dtype.kind == "O":
        return {"dtype": "object", "shape": list(a.shape), "data": a.reshape(-1).tolist()}
    return {"dtype": a.dtype.name, "shape": list(a.shape), "data": a.reshape(-1).tolist()}


def dec_array(d):
    if isinstance(d, (int, float)):
        return d
    if isinstance(d, list):
        return np.asarray(d)
    dt = d["dtype"]
    if dt == "str":
        a = np.asarray(d["data"], dtype=str) if d["data"] else np.asarray([], dtype="<U1")
    elif dt == "object":
        a = np.empty(len(d["data"]), dtype=object)
        a[:] = d["data"]
    else:
        a = np.asarray(d["data"], dtype=dt)
    return a.reshape(d["shape"])


# --------------------------------------------------------------------------
# canonical form of results (bit-exact, NaN-canonical)


def _nd(a):
    a = np.asarray(a)
    if a.dtype.kind == "f":
        b = np.array(a, dtype=a.dtype, copy=True)
        b[np.isnan(b)] = np.nan  # one NaN payload
        raw = b.tobytes()
    elif a.dtype.kind == "O":
        raw = repr(a.tolist()).encode()
    else:
        raw = np.ascontiguousarray(a).tobytes()
    return ("nd", a.dtype.str, tuple(a.shape), hashlib.sha1(raw).hexdigest())


def kind_of(x):
    """'Scores' / 'GroupScores' / 'ConfusionMatrix' / 'ROCCurve' / 'BiasFrame' for library objects of
    either package copy (the copy under test or the pristine twin copy), else None."""
    for c in type(x).__mro__:  # (user subclasses defined elsewhere count as what they derive from)
        if c.__name__ in ("GroupScores", "Scores", "ConfusionMatrix", "ROCCurve", "BiasFrame") \
                and "score_analysis" in (getattr(c, "__module__", "") or ""):
            return c.__name__
    return None


def canon(x):
    if isinstance(x, np.ndarray):
        return _nd(x)
    if isinstance(x, (bool, np.bool_)):
        return ("b", bool(x))
    if isinstance(x, np.generic):
        return ("ns", x.dtype.str, "nan" if (x.dtype.kind == "f" and np.isnan(x)) else repr(x.item()))
    if isinstance(x, float):
        return ("f", "nan" if math.isnan(x) else repr(x))
    if isinstance(x, int):
        return ("i", x)
    if isinstance(x, str) or x is None:
        return ("s", x)
    if isinstance(x, (list, tuple)):
        return (type(x).__name__, tuple(canon(v) for v in x))
    if isinstance(x, dict):
        return ("dict", tuple((repr(k), canon(v)) for k, v in x.items()))
    kd = kind_of(x)
    if kd == "ConfusionMatrix":
        return ("cm", _nd(x.matrix), _nd(np.asarray(x.classes)), bool(x.binary))
    if kd in ("GroupScores", "Scores"):
        # value equality of result objects: the writeable flag of their arrays is not part of the value
        return (kd, _strip_flags(fingerprint(x)))
    if kd == "ROCCurve":
        return ("roc", canon(x.fnr), canon(x.fpr), canon(x.thresholds), canon(x.fnr_ci), canon(x.fpr_ci))
    if isinstance(x, BaseException):
        return ("exc", type(x).__name__)
    try:
        import pandas as pd

        if isinstance(x, pd.DataFrame):
            return ("df", repr(list(x.index)), repr(list(x.columns)), _nd(x.to_numpy()))
    except ImportError:  # pragma: no cover
        pass
    if kd == "BiasFrame":
        return ("bias", canon(x.values), canon(x.alpha), canon(x.lower), canon(x.upper))
    return ("repr", repr(x))


def _strip_flags(fp):
    if isinstance(fp, tuple):
        if len(fp) == 5 and fp and fp[0] == "nd" and isinstance(fp[-1], bool):
            return fp[:-1]
        return tuple(_strip_flags(v) for v in fp)
    return fp


def digest(obj):
    return hashlib.sha256(json.dumps(obj, sort_keys=True, default=str).encode()).hexdigest()


def same(a, b):
    return canon(a) == canon(b)


# --------------------------------------------------------------------------
# fingerprints of (supposedly immutable) objects and caller arrays


def fp_array(a):
    a = np.asarray(a) if not isinstance(a, np.ndarray) else a
    return _nd(a) + (bool(a.flags.writeable),)


def fingerprint(o):
    if isinstance(o, np.ndarray):
        return fp_array(o)
    kd = kind_of(o)
    if kd == "GroupScores":
        return (
            "G", fp_array(o.pos), fp_array(o.neg), fp_array(o.pos_groups), fp_array(o.neg_groups),
            fp_array(o.groups), int(o.nb_easy_pos), int(o.nb_easy_neg),
            o.score_class.value, o.equal_class.value,
        )
    if kd == "Scores":
        return (
            "S", fp_array(o.pos), fp_array(o.neg), repr(o.nb_easy_pos), repr(o.nb_easy_neg),
            o.score_class.value, o.equal_class.value,
        )
    if kd == "ConfusionMatrix":
        return ("CM", fp_array(o.matrix), fp_array(np.asarray(o.classes)), bool(o.binary))
    try:
        import pandas as pd

        if isinstance(o, pd.DataFrame):
            return (
                "DF", repr(list(o.columns)), repr(list(o.index)),
                tuple(str(t) for t in o.dtypes), tuple(repr(o[c].tolist()) for c in o.columns),
            )
    except ImportError:  # pragma: no cover
        pass
    if isinstance(o, (list, tuple)):
        return tuple(fingerprint(v) for v in o)
    return ("repr", repr(o))


# --------------------------------------------------------------------------
# builders


class Callers(dict):
    """Caller-supplied arrays of a constructor call; fp0 is their fingerprint taken
    *before* the library saw them."""

    fp0 = None

    def changed(self):
        return fingerprint(list(self.values())) != self.fp0


def _callers(d):
    c = Callers(d)
    c.fp0 = fingerprint(list(c.values()))
    return c


def wrap_container(arr, container, keep):
    """The same values in another legal container: a (nested) list / tuple, a non-contiguous or negative-stride
    view, a pandas Series with a shuffled non-default index.  `keep` collects the arrays whose memory the caller
    still owns (checked for non-mutation)."""
    if not container or arr.ndim != 1:
        keep.append(arr)
        return arr
    if container in ("list", "tuple"):
        if arr.dtype.kind in "fiU" and arr.dtype.itemsize == 8 or arr.dtype.kind == "U":
            out = arr.tolist()
            return out if container == "list" else tuple(out)
        keep.append(arr)
        return arr
    ro = not arr.flags.writeable
    if container == "strided":
        base = np.empty(2 * len(arr), dtype=arr.dtype)
        base[::2] = arr
        base[1::2] = arr[::-1]
        out = base[::2]
    elif container == "negstride":
        base = np.ascontiguousarray(arr[::-1])
        out = base[::-1]
    elif container == "series":
        import pandas as pd

        idx = (np.arange(len(arr)) * 7 + 3) % max(len(arr), 1) if len(arr) % 7 else np.arange(len(arr))[::-1]
        base = np.array(arr, copy=True)
        out = pd.Series(base, index=idx.astype(np.int64) if len(arr) else None, copy=False)
        keep.append(base)
        if ro:
            base.flags.writeable = False
        return out
    else:
        keep.append(arr)
        return arr
    if ro:
        base.flags.writeable = False
    keep.append(base)
    return out


_USER_SCORE_CLASSES = {}


def _user_score_classes(L):
    """User subclasses of Scores with their own constructors, one pair per package copy; registered as module
    attributes so that instances can be pickled like any user class defined at module level."""
    key = L.Scores.__module__.split(".")[0]  # one pair per package copy (the copy under test / the pristine twin)
    if key not in _USER_SCORE_CLASSES:
        class Distances(L.Scores):
            def __init__(self, pos, neg, **kw):
                super().__init__(-np.asarray(pos), -np.asarray(neg), **kw)

        class Calibrated(L.Scores):
            def __init__(self, pos, neg, offset, **kw):
                super().__init__(np.asarray(pos) + offset, np.asarray(neg) + offset, **kw)
                self.offset = offset

        for cls in (Distances, Calibrated):
            cls.__name__ = cls.__qualname__ = f"{cls.__name__}_{key}"
            cls.__module__ = __name__
            globals()[cls.__name__] = cls
        _USER_SCORE_CLASSES[key] = (Distances, Calibrated)
    return _USER_SCORE_CLASSES[key]


def _easy(spec, key):
    """Easy-sample count in the type the caller has it in (a Python int, or what np.sum / np.count_nonzero return)."""
    v = int(spec.get(key, 0))
    t = spec.get("easy_type")
    if t == "int64":
        return np.int64(v)
    if t == "int32":
        return np.int32(v)
    if t == "uint8_or_int64":
        return np.uint8(v) if v < 256 else np.int64(v)
    if t == "0d":
        return np.asarray(v)
    return v


def build_scores(spec, L=None):
    """spec -> (object, caller_arrays dict). Caller arrays are kept so that the
    simulator can check that the library never writes to them."""
    L = L or lib()
    dt = spec.get("dtype", "float64")
    if spec.get("synth"):
        # a very large source described by its size and a seed instead of by its values (tens of thousands of scores:
        # counts beyond int16 / uint16, sizes beyond 2**15 and 2**16); harness-owned generator, not the seam's stream
        sy = spec["synth"]
        rs_ = np.random.RandomState(int(sy["seed"]))
        pos = np.round(rs_.normal(1.0, 2.0, size=int(sy["n_pos"])), int(sy.get("decimals", 2))).astype(dt)
        neg = np.round(rs_.normal(-1.0, 2.0, size=int(sy["n_neg"])), int(sy.get("decimals", 2))).astype(spec.get("dtype_neg", dt))
    else:
        pos = np.asarray(spec["pos"], dtype=dt)
        neg = np.asarray(spec["neg"], dtype=spec.get("dtype_neg", dt))
    is_sorted = bool(spec.get("presorted", False))
    if is_sorted:
        pos = np.sort(pos)
        neg = np.sort(neg)
    if spec.get("readonly"):
        pos.flags.writeable = False
        neg.flags.writeable = False
    if spec.get("via") == "from_labels" and not is_sorted:
        # alternative constructor: one label array and one score array, rows interleaved deterministically
        plab = spec.get("pos_label", 1)
        nlab = {1: 0, "p": "n", True: False, 2: 3}.get(plab, 0)
        scores = np.concatenate([pos, neg])
        labels = np.asarray([plab] * len(pos) + [nlab] * len(neg), dtype=object if isinstance(plab, str) else None)
        if isinstance(plab, str):
            labels = labels.astype(str)
        perm = np.argsort((np.arange(len(scores)) * 7919) % max(len(scores), 1), kind="stable")
        scores, labels = scores[perm], labels[perm]
        if spec.get("readonly"):
            scores.flags.writeable = False
            labels.flags.writeable = False
        keep = []
        cont = spec.get("container")
        labels_in, scores_in = wrap_container(labels, cont, keep), wrap_container(scores, cont, keep)
        callers = _callers({f"a{k_}": v_ for k_, v_ in enumerate(keep)})
        o = L.Scores.from_labels(
            labels_in, scores_in, pos_label=plab,
            nb_easy_pos=_easy(spec, "nb_easy_pos"), nb_easy_neg=_easy(spec, "nb_easy_neg"),
            score_class=spec.get("score_class", "pos"), equal_class=spec.get("equal_class", "pos"),
        )
        for _ in range(int(spec.get("swaps", 0))):
            o = o.swap()
        return o, callers
    ui = spec.get("user_init")
    if ui in ("negating", "extra_arg") and pos.dtype.kind in "fi" and not is_sorted:
        # the caller's own subclass with its own constructor: distances negated into similarities / a mandatory extra
        # argument.  The arrays handed over are chosen so that the resulting object is the one the spec describes.
        Distances, Calibrated = _user_score_classes(L)
        if ui == "negating":
            pos, neg = -pos, -neg
            ctor = Distances
        else:
            ctor = lambda p_, n_, **kw: Calibrated(p_, n_, 0, **kw)  # noqa: E731
        if spec.get("readonly"):
            pos.flags.writeable = False
            neg.flags.writeable = False
        callers = _callers({"pos": pos, "neg": neg})
        o = ctor(pos, neg, nb_easy_pos=_easy(spec, "nb_easy_pos"), nb_easy_neg=_easy(spec, "nb_easy_neg"),
                 score_class=spec.get("score_class", "pos"), equal_class=spec.get("equal_class", "pos"))
        for _ in range(int(spec.get("swaps", 0))):
            o = o.swap()
        return o, callers
    keep = []
    cont = spec.get("container")
    pos_in, neg_in = wrap_container(pos, cont, keep), wrap_container(neg, cont, keep)
    callers = _callers({f"a{k_}": v_ for k_, v_ in enumerate(keep)})
    o = L.Scores(
        pos_in, neg_in,
        nb_easy_pos=_easy(spec, "nb_easy_pos"), nb_easy_neg=_easy(spec, "nb_easy_neg"),
        score_class=spec.get("score_class", "pos"), equal_class=spec.get("equal_class", "pos"),
        is_sorted=is_sorted,
    )
    for _ in range(int(spec.get("swaps", 0))):
        o = o.swap()
    return o, callers


def build_group_scores(spec, L=None):
    L = L or lib()
    dt = spec.get("dtype", "float64")
    gdt = spec.get("gdtype", "str")
    pos = np.asarray(spec["pos"], dtype=dt)
    neg = np.asarray(spec["neg"], dtype=dt)
    if gdt == "str":
        pg = np.asarray(spec["pos_groups"], dtype=str) if spec["pos_groups"] else np.asarray([], dtype="<U1")
        ng = np.asarray(spec["neg_groups"], dtype=str) if spec["neg_groups"] else np.asarray([], dtype="<U1")
    else:
        pg = np.asarray(spec["pos_groups"], dtype=np.int64)
        ng = np.asarray(spec["neg_groups"], dtype=np.int64)
    is_sorted = bool(spec.get("presorted", False))
    if is_sorted:
        i = np.argsort(pos, kind="stable")
        pos, pg = pos[i], pg[i]
        j = np.argsort(neg, kind="stable")
        neg, ng = neg[j], ng[j]
    via = spec.get("via", "init")
    callers = {"pos": pos, "neg": neg, "pos_groups": pg, "neg_groups": ng}
    kw = dict(score_class=spec.get("score_class", "pos"), equal_class=spec.get("equal_class", "pos"))
    if via == "from_labels":
        plab = spec.get("pos_label", 1)
        if plab is True or plab is False:
            labels = np.concatenate([np.full(len(pos), plab, dtype=bool), np.full(len(neg), not plab, dtype=bool)])
        elif isinstance(plab, str):
            labels = np.asarray([plab] * len(pos) + ["n"] * len(neg), dtype=str) if len(pos) + len(neg) else np.asarray([], dtype="<U1")
        else:
            labels = np.concatenate([np.full(len(pos), plab, dtype=int), np.full(len(neg), 1 - plab if plab in (0, 1) else 0, dtype=int)])
        scores = np.concatenate([pos, neg])
        groups = np.concatenate([pg, ng]) if len(pg) + len(ng) else pg
        perm = np.asarray(spec.get("perm", list(range(len(labels)))), dtype=int)
        if len(perm) == len(labels) and not is_sorted:
            labels, scores, groups = labels[perm], scores[perm], groups[perm]
        keep = []
        cont = spec.get("container")
        labels_in, scores_in, groups_in = (wrap_container(a_, cont, keep) for a_ in (labels, scores, groups))
        callers = _callers({f"a{k_}": v_ for k_, v_ in enumerate(keep)})
        o = L.GroupScores.from_labels(labels_in, scores_in, groups_in, pos_label=plab, is_sorted=is_sorted, **kw)
    else:
        names = spec.get("group_names")
        if names is not None:
            names = np.asarray(names, dtype=str if gdt == "str" else np.int64)
            callers["group_names"] = names
        keep = []
        cont = spec.get("container")
        pos_in, neg_in, pg_in, ng_in = (wrap_container(a_, cont, keep) for a_ in (pos, neg, pg, ng))
        if names is not None:
            keep.append(names)
        callers = _callers({f"a{k_}": v_ for k_, v_ in enumerate(keep)})
        o = L.GroupScores(pos_in, neg_in, pos_groups=pg_in, neg_groups=ng_in, group_names=names, is_sorted=is_sorted, **kw)
    for _ in range(int(spec.get("swaps", 0))):
        o = o.swap()
    return o, callers


_UNHASHABLE = {}


def make_unhashable(obj):
    """Gives a callable object value semantics the way a (non-frozen) dataclass sampler has them: __eq__ defined,
    __hash__ = None.  BootstrapConfig documents `sampling_method` as any callable; nothing says hashable."""
    cls = type(obj)
    if cls.__hash__ is None or not hasattr(obj, "__dict__"):
        return obj
    sub = _UNHASHABLE.get(cls)
    if sub is None:
        sub = type(cls.__name__ + "Unhashable", (cls,), {"__eq__": lambda a, b: a is b, "__hash__": None})
        _UNHASHABLE[cls] = sub
    obj.__class__ = sub
    return obj


_CONFIG_CACHE = {}
_USER_CONFIG_CLS = {}


def reset_run_state():
    _CONFIG_CACHE.clear()


def build_config(cfg, sampler=None):
    L = lib()
    sm = cfg.get("sampling_method", "dynamic")
    if isinstance(sm, dict):
        sm = sampler
        # every fourth callable sampler (chosen by the configuration's content) is an unhashable object
        if sampler is not None and type(sampler).__name__ != "function" and int(cfg.get("nb_samples", 10)) % 4 == 1:
            make_unhashable(sampler)
    vals = (int(cfg.get("nb_samples", 10)), cfg.get("bootstrap_method", "bca"), sm, cfg.get("stratified_sampling"),
            bool(cfg.get("smoothing", False)), cfg.get("ratio"))
    key = None
    if isinstance(sm, str):
        # the caller keeps one configuration object per distinct configuration and hands it to every call of the run
        # that uses it (also on other objects): whatever a call writes into it is seen by the next
        key = json.dumps(vals)
        if key in _CONFIG_CACHE:
            return _CONFIG_CACHE[key]
    cls = L.BootstrapConfig
    if vals[0] % 5 == 2:
        # a user subclass of the configuration class (chosen by content)
        cls = _USER_CONFIG_CLS.get(L.BootstrapConfig)
        if cls is None:
            cls = _USER_CONFIG_CLS[L.BootstrapConfig] = type("UserBootstrapConfig", (L.BootstrapConfig,), {})
    # the documented field order is part of the public interface: every third configuration (chosen by its content,
    # so that it is a function of the scenario) is built positionally
    if vals[0] % 7 == 3:
        vals = (np.int64(vals[0]),) + vals[1:]  # a count that comes out of NumPy arithmetic (every seventh configuration, by content)
    if (int(vals[0]) + len(str(vals[1])) + len(str(vals[3]))) % 3 == 0:
        out = cls(*vals)
    else:
        out = cls(nb_samples=vals[0], bootstrap_method=vals[1], sampling_method=vals[2], stratified_sampling=vals[3],
                  smoothing=vals[4], ratio=vals[5])
    if key is not None:
        _CONFIG_CACHE[key] = out
    return out


# --------------------------------------------------------------------------
# direct counting


def decide_positive(scores, t, score_class, equal_class):
    """Test outcome positive? for an array of scores at scalar threshold t."""
    s = np.asarray(scores)
    if score_class == "pos":
        return s >= t if equal_class == "pos" else s > t
    return s <= t if equal_class == "pos" else s < t


def count_cm(pos, neg, t, score_class, equal_class, easy_pos=0, easy_neg=0):
    """2x2 matrix [[tp, fn],[fp, tn]] by direct counting at scalar threshold."""
    pp = decide_positive(pos, t, score_class, equal_class)
    npred = decide_positive(neg, t, score_class, equal_class)
    tp = int(np.sum(pp)) + int(easy_pos)
    fn = int(len(pp) - np.sum(pp))
    fp = int(np.sum(npred))
    tn = int(len(npred) - np.sum(npred)) + int(easy_neg)
    return np.array([[tp, fn], [fp, tn]], dtype=np.int64)


def probe_thresholds(*arrays):
    """Thresholds on, between and beyond the given scores."""
    vals = np.unique(np.concatenate([np.asarray(a, dtype=float).reshape(-1) for a in arrays] + [np.zeros(0)]))
    if len(vals) == 0:
        return np.array([0.0])
    mids = (vals[:-1] + vals[1:]) / 2.0
    out = np.concatenate([vals, mids, [vals[0] - 1.0, vals[-1] + 1.0]])
    return np.unique(out)


def flags_of(o):
    return o.score_class.value, o.equal_class.value


def is_sorted(a):
    a = np.asarray(a)
    return bool(np.all(a[:-1] <= a[1:])) if a.size > 1 else True


def multiset_included(sub, sup):
    """Every value of sub appears in sup at least as often."""
    sub = np.asarray(sub)
    sup = np.asarray(sup)
    if sub.size == 0:
        return True
    us, cs = np.unique(sub, return_counts=True)
    up, cp = np.unique(sup, return_counts=True)
    d = dict(zip(up.tolist(), cp.tolist()))
    return all(d.get(v, 0) >= c for v, c in zip(us.tolist(), cs.tolist()))


def values_subset(sub, sup):
    sub = np.asarray(sub)
    if sub.size == 0:
        return True
    sup = np.asarray(sup)
    if sub.dtype != sup.dtype and (sub.dtype.kind in "iu" or sup.dtype.kind in "iu"):
        # exact comparison (Python int against float is exact; NumPy would first round both to float64)
        pool = set(sup.tolist())
        return all(v in pool for v in sub.tolist())
    return bool(np.all(np.isin(sub, sup)))


# --------------------------------------------------------------------------
# documented CI formulas, independently implemented (Efron & Hastie ch. 11)


def _phi(x):
    return 0.5 * math.erfc(-x / math.sqrt(2.0))


def _phi_inv(p):
    # scipy is a dependency of the library and therefore available; ndtri is the
    # standard normal quantile, used here through a different entry point than the
    # library's scipy.stats.norm.ppf.
    from scipy.special import ndtri

    return float(ndtri(p))


def _quantile_linear(sorted_vals, q):
    """numpy's default ('linear', method 7) quantile on a sorted 1-d array."""
    n = len(sorted_vals)
    if n == 0:
        return float("nan")
    if math.isnan(q):
        return float("nan")
    if not np.all(np.isfinite(np.asarray(sorted_vals, dtype=float))):
        # infinite replicates: what "linear interpolation between order statistics" means next to +-inf (inf - inf,
        # 0 * inf) is NumPy's business, not the library's; the reference uses the same primitive there
        with np.errstate(all="ignore"):
            return float(np.quantile(np.asarray(sorted_vals, dtype=float), min(max(q, 0.0), 1.0)))
    h = (n - 1) * q
    lo = int(math.floor(h))
    hi = min(lo + 1, n - 1)
    lo = max(min(lo, n - 1), 0)
    g = h - math.floor(h)
    a, b = float(sorted_vals[lo]), float(sorted_vals[hi])
    if a == b:
        return a
    # same rounding as NumPy's linear interpolation (two-sided lerp), so that interval bounds agree to the
    # last bit wherever the inputs do; bounds feed discontinuous tests (does a rectangle cover a point?)
    d = b - a
    return a + d * g if g < 0.5 else b - d * (1.0 - g)


def ref_ci_1d(theta, theta_hat, alpha, method):
    """Reference CI for one scalar quantity from its replicates (NaNs dropped)."""
    theta = np.asarray(theta, dtype=float)
    vals = np.sort(theta[~np.isnan(theta)])
    n = len(vals)
    if n == 0:
        return float("nan"), float("nan")
    al, au = alpha / 2.0, 1.0 - alpha / 2.0
    if method == "quantile":
        return _quantile_linear(vals, al), _quantile_linear(vals, au)
    th = float(theta_hat)
    if math.isnan(th):
        p0 = 0.0
    else:
        p0 = float(np.sum(vals <= th)) / n
    if p0 <= 0.0:
        z0 = -math.inf
    elif p0 >= 1.0:
        z0 = math.inf
    else:
        z0 = _phi_inv(p0)
    zl, zu = _phi_inv(al), _phi_inv(au)
    if method == "bc":
        xl, xu = 2 * z0 + zl, 2 * z0 + zu
    else:
        if math.isinf(z0):
            xl = xu = z0
        else:
            d = vals - th
            den = 6.0 * float(np.sum(d**2)) ** 1.5
            a = np.float64(float(np.sum(d**3)) / den if den != 0 else 0.0)
            sl, su = np.float64(z0 + zl), np.float64(z0 + zu)
            xl = float(z0 + sl / (1 - a * sl))
            xu = float(z0 + su / (1 - a * su))
    ql = _phi(xl) if not math.isnan(xl) else float("nan")
    qu = _phi(xu) if not math.isnan(xu) else float("nan")
    return _quantile_linear(vals, ql), _quantile_linear(vals, qu)


def ref_ci(theta, theta_hat, alpha, method):
    """theta: (N, *Y); theta_hat: (*Y,); returns (*Y, 2)."""
    theta = np.asarray(theta, dtype=float)
    yshape = theta.shape[1:]
    flat = theta.reshape(theta.shape[0], -1)
    th = np.broadcast_to(np.asarray(theta_hat, dtype=float), yshape).reshape(-1) if method != "quantile" else np.zeros(flat.shape[1])
    out = np.empty((flat.shape[1], 2))
    for j in range(flat.shape[1]):
        out[j] = ref_ci_1d(flat[:, j], th[j], alpha, method)
    return out.reshape(*yshape, 2)


def close(a, b, tol=1e-9):
    """NaN-pattern equality and atol=rtol=tol closeness."""
    a = np.asarray(a, dtype=float)
    b = np.asarray(b, dtype=float)
    if a.shape != b.shape:
        return False
    na, nb = np.isnan(a), np.isnan(b)
    if not np.array_equal(na, nb):
        return False
    m = ~na
    if not m.any():
        return True
    fa, fb = np.isfinite(a[m]), np.isfinite(b[m])
    if not np.array_equal(fa, fb) or not np.array_equal(a[m][~fa], b[m][~fb]):  # infinities must match exactly
        return False
    x, y = a[m][fa], b[m][fb]
    return bool(np.all(np.abs(x - y) <= tol + tol * np.abs(y)))
