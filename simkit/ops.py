"""Running one library operation under the seams, with its planned faults."""

from .seams import OpTimeout, SimInterrupt

EXC = {"SimInterrupt": SimInterrupt, "MemoryError": MemoryError}


def split_faults(faults, rep=None):
    draw, intr = [], None
    for f in faults or []:
        if rep is not None and f.get("rep", "*") not in ("*", rep):
            continue
        if f["kind"] == "interrupt":
            intr = intr or f
        elif f["kind"] in ("callback_raise", "callback_nan", "callback_reenter", "callback_rng"):
            continue
        else:
            draw.append(f)
    return draw, intr


def run_op(ctx, real_fn, faults=None, twin_fn=None, rep=None):
    """Executes real_fn() with the draw plan installed.  If an interrupt fault is
    planned, the number of library line events L of the operation is first measured
    on a twin (same RNG state, same plan), then the real operation is interrupted at
    line event 1 + floor(frac * L).

    Returns dict(ok, value, draws, fired, log, interrupted, line_events)."""
    seam, tracer = ctx.seam, ctx.tracer
    draw, intr = split_faults(faults, rep)
    line_events = 0
    at = None
    skipped_interrupt = False
    if intr is not None and "at_line" in intr:
        at = int(intr["at_line"])  # absolute position: fires if the operation gets that far
    elif intr is not None and twin_fn is not None:
        st = seam.get_state()
        es = seam.entropy_seed
        seam.begin_op(draw)
        try:
            ok_t, v_t, L, _ = tracer.run(twin_fn)
        except OpTimeout:
            # the operation is too long to be measured line by line (deterministically so: the cap counts line events):
            # the planned interrupt is dropped and the operation runs untraced
            L = 0
            skipped_interrupt = True
        seam.end_op()
        seam.set_state(st)
        seam.entropy_seed = es
        line_events += L
        if L > 0:
            at = 1 + min(L - 1, int(float(intr.get("frac", 0.5)) * L))
    seam.begin_op(draw)
    if at is not None:
        ok, v, n, fired = tracer.run(real_fn, at=at, exc=EXC.get(intr.get("exc", "SimInterrupt"), SimInterrupt))
        line_events += n
    else:
        fired = False
        try:
            v = real_fn()
            ok = True
        except Exception as e:  # noqa: BLE001 - outcome is data for the oracle
            v, ok = e, False
    info = seam.end_op()
    seam.begin_op([])  # oracle-side library calls must never see the operation's plan
    return {
        "ok": ok, "value": v, "draws": info["draws"], "fired": info["fired"], "log": info["log"],
        "interrupted": bool(fired), "line_events": line_events, "skipped_interrupt": skipped_interrupt,
    }
