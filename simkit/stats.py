"""Distributional oracle with an explicit error budget.

Empirical Bernstein bound (Maurer & Pontil 2009, Thm 4), two-sided: for i.i.d.
X_1..X_M in [0, R] with sample mean m and unbiased sample variance V,

    |m - E X| <= sqrt(2 V ln(4/delta) / M) + 7 R ln(4/delta) / (3 (M - 1))

with probability >= 1 - delta.  It needs no assumption about the variance of the
implementation under test, only that the statistic is bounded and the samples are
independent (successive draws of the seeded MT19937 stream are treated as such).
"""

import math

import numpy as np

DELTA = 1e-12


def eb_tolerance(var, R, M, delta=DELTA):
    L = math.log(4.0 / delta)
    return np.sqrt(2.0 * np.asarray(var, dtype=float) * L / M) + 7.0 * R * L / (3.0 * (M - 1))


def mean_test(samples, expected, R, delta=DELTA, slack=0.0):
    """samples: (M, K) array of statistics in [0, R]; expected: (K,).
    Returns (ok mask (K,), mean, tol)."""
    x = np.asarray(samples, dtype=float)
    M = x.shape[0]
    m = x.mean(axis=0)
    v = x.var(axis=0, ddof=1)
    tol = eb_tolerance(v, R, M, delta) + slack
    ok = np.abs(m - np.asarray(expected, dtype=float)) <= tol
    return ok, m, tol
