"""Batch runner: seeds -> scenarios -> executions -> violations/evidence.

Exit codes: 0 held (possibly with KNOWN-FINDING lines), 1 unlisted violation(s),
2 harness error (nondeterminism, unreplayable violation, library import failure),
3 harness timeout.  VIOLATION lines are only ever printed with exit code 1.
"""

import copy
import faulthandler
import hashlib
import importlib
import json
import multiprocessing
import os
import signal
import subprocess
import sys
import time
import traceback
from collections import Counter
from concurrent.futures import ProcessPoolExecutor, as_completed

from . import boot
from .seams import OpTimeout, RngSeam, Tracer

VERIF_DIR = boot.VERIF_DIR
PROPS = ["C10", "C11", "C12", "C14", "C16", "C18", "C20"]
RUN_TIMEOUT_S = 120  # per simulated run; a run normally takes milliseconds


# --------------------------------------------------------------------------
# seeds


def run_seed(verif_seed, prop, index):
    h = hashlib.sha256(f"{verif_seed}:{prop}:{index}".encode()).hexdigest()
    return int(h[:16], 16)


def prop_module(prop):
    return importlib.import_module(f"simkit.props.{prop.lower()}")


# --------------------------------------------------------------------------
# execution context (one per process)


class Ctx:
    def __init__(self):
        self.L = boot.lib()
        self.seam = RngSeam(self.L.pkg_dir)
        self.seam.install()
        self.tracer = Tracer(self.L.pkg_dir)


_ctx = None


def ctx():
    global _ctx
    if _ctx is None:
        _ctx = Ctx()
    return _ctx


def _alarm(signum, frame):
    raise OpTimeout("run exceeded wall limit")


def execute(mod, scn):
    """Pure function (scenario, code in the working tree) -> result dict."""
    c = ctx()
    c.seam.reset_totals()
    boot.reset_state("score_analysis")  # every run starts from the library's state right after import
    boot.reset_process_env()
    from . import model as _model

    _model.reset_run_state()
    import random as _random

    _random.seed(int(scn.get("np_seed", 0)))  # the stdlib generator is scenario-determined as well
    signal.signal(signal.SIGALRM, _alarm)
    signal.alarm(RUN_TIMEOUT_S)
    try:
        res = mod.execute(scn, c)
    finally:
        signal.alarm(0)
    res.setdefault("violations", [])
    if not scn.get("stat"):
        from . import leak as _leak

        extra = _leak.check_after_run(scn.get("property", ""))
        if extra:
            res["violations"] = list(res["violations"]) + extra
    res.setdefault("trace", [])
    res.setdefault("stats", {})
    res["digest"] = hashlib.sha256(
        json.dumps(res["trace"], sort_keys=True, default=str).encode()
    ).hexdigest()
    return res


def generate(mod, prop, verif_seed, index, tier):
    import random

    rs = run_seed(verif_seed, prop, index)
    rnd = random.Random(rs)
    scn = mod.generate(rnd, tier)
    scn["property"] = prop
    scn["seed_info"] = {"verif_seed": verif_seed, "index": index, "run_seed": rs, "tier": tier}
    # scenarios travel as JSON: make sure what we execute is what a replay would read
    return json.loads(json.dumps(scn))


# --------------------------------------------------------------------------
# worker side


def _merge_counts(dst, src):
    for k, v in src.items():
        dst[k] = dst.get(k, 0) + v


def run_chunk(args):
    prop, tier, verif_seed, indices, kind = args
    faulthandler.enable()
    mod = prop_module(prop)
    out = {
        "runs": 0, "violations": [], "sigs": set(), "nontrivial": 0, "digests": {},
        "stats": {}, "faults": {}, "probes": {}, "samples": [], "errors": [], "states": set(),
        "stat_tests": 0,
    }
    for i in indices:
        try:
            if kind == "stat":
                scn = mod.stat_scenario(verif_seed, i, tier)
                scn["property"] = prop
                scn["seed_info"] = {"verif_seed": verif_seed, "index": i, "stat": True, "tier": tier}
                scn = json.loads(json.dumps(scn))
            else:
                scn = generate(mod, prop, verif_seed, i, tier)
            res = execute(mod, scn)
        except OpTimeout as e:
            out["errors"].append({"index": i, "error": f"op-timeout: {e}"})
            continue
        except Exception:  # harness defect, never a violation
            out["errors"].append({"index": i, "error": traceback.format_exc()[-1500:]})
            continue
        out["runs"] += 1
        out["digests"][str(i) if kind == "run" else f"s{i}"] = res["digest"]
        st = res["stats"]
        _merge_counts(out["faults"], st.get("faults", {}))
        _merge_counts(out["probes"], st.get("probes", {}))
        for k in ("ops", "draws", "forced", "line_events", "samples_checked", "checks"):
            if k in st:
                out["stats"][k] = out["stats"].get(k, 0) + st[k]
        out["stat_tests"] += st.get("stat_tests", 0)
        if res.get("nontrivial", True):
            out["nontrivial"] += 1
            out["sigs"].add(res.get("signature", res["digest"])[:16])
        for s in res.get("states", ()):
            out["states"].add(s)
        if res["violations"] and len(out["violations"]) < 6:
            out["violations"].append({"index": i, "kind": kind, "scenario": scn, "violations": res["violations"][:4],
                                      "forced": st.get("forced", 0), "size": len(json.dumps(scn))})
        elif res["violations"]:
            out["violations"].append({"index": i, "kind": kind, "scenario": None, "forced": st.get("forced", 0), "size": 0, "violations": [
                {"invariant": v["invariant"], "tags": v.get("tags", {})} for v in res["violations"][:4]]})
        if len(out["samples"]) < 1 and res.get("nontrivial", True) and (kind == "run" or i == 0):
            out["samples"].append(mod.sample_view(scn, res) if hasattr(mod, "sample_view") else scn)
    out["sigs"] = sorted(out["sigs"])
    out["states"] = sorted(out["states"])
    return out


# --------------------------------------------------------------------------
# minimisation


def violates(mod, scn, invariant, skip_known=None):
    """(result, violation item) if executing scn violates `invariant`, else None.
    Invariants a module lists in FLAKY_INVARIANTS state that the *library* is not
    reproducible; by nature they may need more than one execution to show.
    skip_known = (known findings, property): violations matching a listed known finding
    do not count (a new violation must not be confused with a known one of the same
    invariant while minimising or replaying)."""
    attempts = 5 if invariant in getattr(mod, "FLAKY_INVARIANTS", ()) else 1
    for _ in range(attempts):
        try:
            res = execute(mod, scn)
        except OpTimeout:
            return None
        except Exception:
            return None
        for v in res["violations"]:
            if v["invariant"] == invariant:
                if skip_known is not None and match_known(skip_known[0], skip_known[1], v) is not None:
                    continue
                return res, v
    return None


def minimise(mod, scn, invariant, max_exec=400, max_s=30.0, skip_known=None):
    t0 = time.time()
    n_exec = 0
    best = scn
    improved = True
    while improved and n_exec < max_exec and time.time() - t0 < max_s:
        improved = False
        for cand in mod.shrink(best):
            if n_exec >= max_exec or time.time() - t0 >= max_s:
                break
            n_exec += 1
            cand = json.loads(json.dumps(cand))
            if violates(mod, cand, invariant, skip_known) is not None:
                best = cand
                improved = True
                break
    return best, n_exec


# --------------------------------------------------------------------------
# known findings


def load_known():
    p = os.path.join(VERIF_DIR, "known_findings.json")
    if not os.path.exists(p):
        return []
    with open(p) as f:
        return json.load(f).get("findings", [])


def match_known(known, prop, violation):
    for k in known:
        if k.get("status") != "known" or k.get("property") != prop:
            continue
        if violation["invariant"] not in [x.strip() for x in str(k.get("invariant", "")).split("/")]:
            continue
        tags = violation.get("tags", {})
        if all(tags.get(a) == b for a, b in k.get("where", {}).items()):
            return k
    return None


# --------------------------------------------------------------------------
# fresh-interpreter helpers


def _python():
    return sys.executable


def fresh_digests(prop, tier, verif_seed, indices, hashseed, workers, stat=False):
    env = dict(os.environ)
    env["VERIF_HASHSEED"] = str(hashseed)
    env.pop("SIMKIT_REEXEC", None)
    env.pop("PYTHONHASHSEED", None)  # the child's ensure_env() re-execs with VERIF_HASHSEED
    cmd = [
        _python(), os.path.join(VERIF_DIR, "check.py"), "digest", prop, "--tier", tier,
        "--seed", str(verif_seed), "--indices", ",".join(map(str, indices)),
        "--workers", str(workers),
    ] + (["--stat"] if stat else [])
    p = subprocess.run(cmd, env=env, capture_output=True, text=True, timeout=900, cwd=VERIF_DIR)
    if p.returncode != 0:
        raise RuntimeError(f"fresh interpreter failed: {p.stderr[-2000:]}")
    line = [ln for ln in p.stdout.splitlines() if ln.startswith("DIGESTS ")][-1]
    d = json.loads(line[len("DIGESTS "):])
    return {int(k): v for k, v in d["digests"].items() if not k.startswith("s")}, d["hashseed"]


def _as_nondeterminism(mod, prop, scn, index, verif_seed, tier, replay_dir):
    """For properties whose statement includes repeatability (NONDETERMINISM_IS_VIOLATION): a violation that does not
    reproduce is re-examined as what it then is - one scenario, different results in repeated executions.  Returns the
    reported-violation dict if a fresh interpreter confirms that, else None."""
    if not getattr(mod, "NONDETERMINISM_IS_VIOLATION", False) or scn is None:
        return None
    path = os.path.join(replay_dir, f"{prop}-nondeterminism-{index}.json")
    with open(path, "w") as f:
        json.dump({"property": prop, "kind": "nondeterminism", "invariant": f"{prop}.reproducible_across_runs", "scenario": scn,
                   "detail": "the same scenario gives different results in repeated executions / fresh interpreters / hash seeds",
                   "found_at": {"verif_seed": verif_seed, "index": index, "tier": tier}}, f, indent=1)
    rc, out = replay_fresh(path)
    if rc == 1 and "REPRODUCED" in out:
        return {"invariant": f"{prop}.reproducible_across_runs", "replay": path, "detail": f"run index {index} is not reproducible", "runs": 1}
    return None


def replay_fresh(path):
    env = dict(os.environ)
    env.pop("SIMKIT_REEXEC", None)
    cmd = [_python(), os.path.join(VERIF_DIR, "check.py"), "replay", path, "--quiet"]
    p = subprocess.run(cmd, env=env, capture_output=True, text=True, timeout=600, cwd=VERIF_DIR)
    return p.returncode, p.stdout


# --------------------------------------------------------------------------
# pool


def _pool_map(jobs, workers, deadline):
    """Runs jobs; returns (results, truncated). Never hangs on a dead worker."""
    results = []
    truncated = False
    mpctx = multiprocessing.get_context("fork")
    with ProcessPoolExecutor(max_workers=workers, mp_context=mpctx) as ex:
        futs = [ex.submit(run_chunk, j) for j in jobs]
        try:
            for f in as_completed(futs, timeout=max(1.0, deadline - time.time())):
                try:
                    results.append(f.result())
                except Exception as e:  # noqa: BLE001 - a worker died (e.g. out of memory): a harness error, reported as such
                    results.append({"runs": 0, "violations": [], "sigs": [], "nontrivial": 0, "digests": {}, "stats": {}, "faults": {},
                                    "probes": {}, "samples": [], "errors": [{"index": -1, "error": f"worker failed: {type(e).__name__}: {e}"}],
                                    "states": [], "stat_tests": 0})
        except TimeoutError:
            truncated = True
            for f in futs:
                f.cancel()
            for f in futs:
                if f.done() and not f.cancelled():
                    try:
                        r = f.result()
                        if r not in results:
                            results.append(r)
                    except Exception:
                        pass
            for p in list(ex._processes.values()):
                try:
                    p.terminate()
                except Exception:
                    pass
    return results, truncated


def chunks(lst, n):
    return [lst[i:i + n] for i in range(0, len(lst), n)]


# --------------------------------------------------------------------------
# main entry for a property check


def run_check(prop, tier, verif_seed, workers=None, runs=None, budget_s=None):
    t0 = time.time()
    mod = prop_module(prop)
    tiers = mod.TIERS[tier]
    n_runs = int(runs if runs is not None else tiers["runs"])
    n_stat = int(tiers.get("stat_jobs", 0)) if hasattr(mod, "stat_scenario") else 0
    if runs is not None and runs < tiers["runs"]:
        n_stat = min(n_stat, max(0, runs // 50))
    workers = int(workers or os.environ.get("VERIF_WORKERS") or min(16, os.cpu_count() or 1))
    soft = float(budget_s or tiers.get("budget_s", 600))
    deadline = t0 + soft
    faulthandler.enable()
    faulthandler.dump_traceback_later(soft * 4 + 120, exit=True)
    print(f"simkit: property={prop} tier={tier} VERIF_SEED={verif_seed} runs={n_runs} stat_jobs={n_stat} "
          f"workers={workers} repo={boot.REPO} hashseed={os.environ.get('PYTHONHASHSEED')}", flush=True)

    # import check (a tree that does not import is a harness error, not a violation)
    try:
        ctx()
    except Exception:
        print("HARNESS-ERROR import: " + traceback.format_exc()[-1500:])
        return 2

    # ---- determinism self-test ------------------------------------------
    S = min(int(tiers.get("selftest", 16)), n_runs)
    det = {"seeds": S, "in_process_mismatches": 0, "fresh_mismatches": 0, "hashseeds": [], "worker_counts": []}
    first = {}
    nondet = []
    for i in range(S):
        scn = generate(mod, prop, verif_seed, i, tier)
        try:
            a = execute(mod, scn)["digest"]
            b = execute(mod, copy.deepcopy(scn))["digest"]
        except OpTimeout:
            print("HARNESS-ERROR op-timeout during determinism self-test")
            return 3
        except Exception:  # a harness defect (or a tree the harness cannot drive): never exit 1 without a VIOLATION line
            print(f"HARNESS-ERROR run index {i} failed inside the harness: " + traceback.format_exc()[-1200:])
            return 2
        first[i] = a
        if a != b:
            det["in_process_mismatches"] += 1
            nondet.append(i)
    my_hs = os.environ.get("PYTHONHASHSEED")
    other_hs = "31337" if my_hs != "31337" else "4242"
    other_workers = 3
    try:
        fd, hs = fresh_digests(prop, tier, verif_seed, list(range(S)), other_hs, other_workers)
        det["hashseeds"] = [my_hs, hs]
        det["worker_counts"] = [workers, other_workers]
        for i in range(S):
            if fd.get(i) != first[i]:
                det["fresh_mismatches"] += 1
                nondet.append(i)
    except Exception as e:
        print(f"HARNESS-ERROR determinism self-test could not run: {e}")
        return 2
    det["mismatches"] = det["in_process_mismatches"] + det["fresh_mismatches"]

    # ---- main batch ------------------------------------------------------
    idx = list(range(n_runs))
    csize = max(1, min(int(tiers.get("chunk", 200)), (n_runs + workers * 4 - 1) // (workers * 4)))
    jobs = [(prop, tier, verif_seed, c, "run") for c in chunks(idx, csize)]
    if n_stat:
        jobs = [(prop, tier, verif_seed, [j], "stat") for j in range(n_stat)] + jobs
    results, truncated = _pool_map(jobs, workers, deadline)

    agg = {"runs": 0, "nontrivial": 0, "stats": {}, "faults": {}, "probes": {}, "stat_tests": 0}
    sigs, states, viols, samples, errors, digests = set(), set(), [], [], [], {}
    for r in results:
        agg["runs"] += r["runs"]
        agg["nontrivial"] += r["nontrivial"]
        agg["stat_tests"] += r["stat_tests"]
        _merge_counts(agg["stats"], r["stats"])
        _merge_counts(agg["faults"], r["faults"])
        _merge_counts(agg["probes"], r["probes"])
        sigs.update(r["sigs"])
        states.update(r["states"])
        viols.extend(r["violations"])
        errors.extend(r["errors"])
        digests.update(r["digests"])
        if len(samples) < 4:
            samples.extend(r["samples"][: 4 - len(samples)])
    # show ordinary runs first, at most one statistical scenario
    samples.sort(key=lambda s_: bool((s_.get("scenario") or s_).get("stat")))
    # pool digests must agree with the in-process ones (third determinism leg)
    for i in range(S):
        if str(i) in digests and digests[str(i)] != first[i]:
            det["mismatches"] += 1
            nondet.append(i)

    wall_main = time.time() - t0
    exit_code = 0
    lines = []
    known = load_known()
    known_hit = []
    reported = []
    reported_nd = None

    if det["mismatches"]:
        # C14's last clause *is* reproducibility; a nondeterministic library run is its violation
        nd_ok = False
        if getattr(mod, "NONDETERMINISM_IS_VIOLATION", False):
            # this property's statement includes reproducibility under a fixed seed
            i0 = sorted(set(nondet))[0]
            scn0 = generate(mod, prop, verif_seed, i0, tier)
            rd = os.environ.get("VERIF_REPLAY_DIR") or os.path.join(VERIF_DIR, "replays")
            os.makedirs(rd, exist_ok=True)
            path = os.path.join(rd, f"{prop}-nondeterminism-{i0}.json")
            with open(path, "w") as f:
                json.dump({"property": prop, "kind": "nondeterminism", "invariant": f"{prop}.reproducible_across_runs",
                           "scenario": scn0, "detail": "the same scenario gives different results in repeated executions / "
                           "fresh interpreters / hash seeds", "found_at": {"verif_seed": verif_seed, "index": i0, "tier": tier}}, f, indent=1)
            rc, out = replay_fresh(path)
            if rc == 1 and "REPRODUCED" in out:
                nd_ok = True
                reported_nd = {"invariant": f"{prop}.reproducible_across_runs", "replay": path,
                               "detail": f"run index {i0} is not reproducible", "runs": len(set(nondet))}
        if nd_ok:
            pass
        else:
            print(f"HARNESS-ERROR nondeterminism: run indices {sorted(set(nondet))[:10]} differ between executions")
            exit_code = 2

    if errors:
        to = [e for e in errors if e["error"].startswith("op-timeout")]
        print(f"HARNESS-ERROR {len(errors)} run(s) failed inside the harness (run indices {[e.get('index') for e in errors][:8]}); first: {errors[0]['error']}")
        exit_code = max(exit_code, 3 if to and len(to) == len(errors) else 2)

    # ---- violations: group, minimise, replay, classify -------------------
    by_inv = {}
    # simplest evidence first: faithful-stream runs before forced ones, small scenarios before large
    for v in sorted(viols, key=lambda v: (v["scenario"] is None, v["kind"] != "run", v["forced"] > 0, v["size"], v["index"])):
        for item in v["violations"]:
            key = (item["invariant"], json.dumps(item.get("tags", {}), sort_keys=True))
            by_inv.setdefault(key, []).append((v, item))
    replay_dir = os.environ.get("VERIF_REPLAY_DIR") or os.path.join(VERIF_DIR, "replays")
    os.makedirs(replay_dir, exist_ok=True)
    n_violation_runs = len(viols)
    handled_inv = {}
    def _grp_key(kv):
        (inv_, tagkey_), lst_ = kv
        v0 = lst_[0][0]
        return (inv_, v0["scenario"] is None, v0["forced"] > 0, v0["size"], tagkey_)

    for (inv, tagkey), lst in sorted(by_inv.items(), key=_grp_key):
        v, item = next(((v, it) for v, it in lst if v["scenario"] is not None), (None, None))
        k = match_known(known, prop, lst[0][1])
        if k is not None:
            if k["id"] not in known_hit:
                known_hit.append(k["id"])
                lines.append(f"KNOWN-FINDING: property={prop} {k['id']}: {k['summary']} ({len(lst)} run(s))")
            continue
        if inv in handled_inv or v is None or len(handled_inv) >= 6:
            handled_inv.setdefault(inv, 0)
            handled_inv[inv] += len(lst)
            continue
        handled_inv[inv] = len(lst)
        scn = v["scenario"]
        sk = (known, prop)
        if time.time() - t0 < soft * 3:
            small, n_exec = minimise(mod, scn, inv, skip_known=sk)
        else:
            small, n_exec = scn, 0
        got = violates(mod, small, inv, sk)
        if got is None:  # minimiser must never lose the violation
            small, got = scn, violates(mod, scn, inv, sk)
        if got is None:
            nd = _as_nondeterminism(mod, prop, scn, v["index"], verif_seed, tier, replay_dir) if reported_nd is None else reported_nd
            if nd is not None:
                reported_nd = nd  # a violation that comes and goes for one scenario: the scenario itself is not reproducible
                continue
            print(f"HARNESS-ERROR unreplayable: {inv} at run index {v['index']} did not reproduce in-process")
            exit_code = max(exit_code, 2)
            continue
        res, item2 = got
        rep = {
            "property": prop, "invariant": inv, "detail": str(item2.get("detail"))[:3000], "tags": item2.get("tags", {}),
            "expected_digest": res["digest"], "scenario": small,
            "found_at": {"verif_seed": verif_seed, "index": v["index"], "tier": tier, "kind": v["kind"]},
            "minimisation": {"candidate_executions": n_exec,
                             "size_before": len(json.dumps(scn)), "size_after": len(json.dumps(small))},
            "needs_forced_outcome": bool(res["stats"].get("forced", 0)),
            "faults_fired": res["stats"].get("faults", {}),
            "repo": boot.REPO,
        }
        name = f"{prop}-{hashlib.sha256(json.dumps(small, sort_keys=True).encode()).hexdigest()[:12]}.json"
        path = os.path.join(replay_dir, name)
        with open(path, "w") as f:
            json.dump(rep, f, indent=1, sort_keys=True)
        rc, out = replay_fresh(path)
        flaky = inv in getattr(mod, "FLAKY_INVARIANTS", ())
        if rc != 1 or "REPRODUCED" not in out or ("digest_match=True" not in out and not flaky):
            nd = _as_nondeterminism(mod, prop, small, v["index"], verif_seed, tier, replay_dir) if reported_nd is None else reported_nd
            if nd is not None:
                reported_nd = nd
                continue
            print(f"HARNESS-ERROR unreplayable: {inv} replay file {path} did not reproduce in a fresh interpreter (rc={rc})")
            exit_code = max(exit_code, 2)
            continue
        reported.append({"invariant": inv, "replay": path, "detail": item2.get("detail"), "runs": len(lst)})

    if by_inv and os.environ.get("VERIF_VERBOSE"):
        for (inv_, tagkey_), lst_ in sorted(by_inv.items()):
            print(f"  group {inv_} {tagkey_} runs={len(lst_)}", file=sys.stderr)
    if reported_nd is not None:
        reported.append(reported_nd)
    if reported and exit_code in (0, 1):
        exit_code = 1
        for r in reported:
            lines.append(f"VIOLATION property={prop} replay={r['replay']}")
            lines.append(f"  invariant={r['invariant']} runs={r['runs']} detail={str(r['detail'])[:300]}")
    elif reported:
        # a harness error poisons the run: say what was seen but claim nothing
        for r in reported:
            lines.append(f"UNCONFIRMED (harness error above) property={prop} invariant={r['invariant']} replay={r['replay']}")

    wall = time.time() - t0
    # ---- evidence --------------------------------------------------------
    from .evidence import write_evidence

    ev_ok = write_evidence(
        prop=prop, tier=tier, seed=verif_seed, mod=mod, agg=agg, sigs=sigs, states=states,
        samples=samples, det=det, wall=wall, wall_main=wall_main, truncated=truncated,
        planned_runs=n_runs + n_stat, known_hit=known_hit, reported=reported,
        n_violation_runs=n_violation_runs, workers=workers, errors=len(errors),
    )
    if not ev_ok:
        print("HARNESS-ERROR evidence file failed schema validation")
        exit_code = max(exit_code, 2) if exit_code != 1 else 1

    for ln in lines:
        print(ln)
    rate = agg["runs"] / max(wall_main, 1e-9) * 3600
    print(f"simkit: {prop} {tier}: runs={agg['runs']}/{n_runs + n_stat} distinct_nontrivial={len(sigs)} "
          f"ops={agg['stats'].get('ops', 0)} draws={agg['stats'].get('draws', 0)} forced={agg['stats'].get('forced', 0)} "
          f"faults_fired={sum(agg['faults'].values())} stat_tests={agg['stat_tests']} violation_runs={n_violation_runs} "
          f"known={known_hit} truncated={truncated} wall={wall:.1f}s ({rate:.0f} runs/h) exit={exit_code}", flush=True)
    faulthandler.cancel_dump_traceback_later()
    return exit_code


# --------------------------------------------------------------------------
# other sub-commands


def cmd_digest(prop, tier, verif_seed, indices, workers, stat=False):
    mod = prop_module(prop)
    jobs = [(prop, tier, verif_seed, c, "stat" if stat else "run") for c in chunks(indices, max(1, len(indices) // max(1, workers)))]
    results, truncated = _pool_map(jobs, workers, time.time() + 800)
    d = {}
    for r in results:
        d.update(r["digests"])
        if r["errors"]:
            print("ERRORS", r["errors"][:1], file=sys.stderr)
    print("DIGESTS " + json.dumps({"digests": d, "hashseed": os.environ.get("PYTHONHASHSEED")}))
    return 0 if not truncated else 3


def cmd_replay(path, quiet=False):
    with open(path) as f:
        rep = json.load(f)
    prop = rep["property"]
    mod = prop_module(prop)
    try:
        ctx()
    except Exception:
        print("HARNESS-ERROR import: " + traceback.format_exc()[-1500:])
        return 2
    if rep.get("kind") == "nondeterminism":
        digs = [execute(mod, json.loads(json.dumps(rep["scenario"])))["digest"] for _ in range(3)]
        if not os.environ.get("SIMKIT_NO_FRESH"):
            for hs in ("0", "31337", "99"):
                env = dict(os.environ)
                env.pop("SIMKIT_REEXEC", None)
                env.pop("PYTHONHASHSEED", None)
                env["VERIF_HASHSEED"] = hs
                env["SIMKIT_NO_FRESH"] = "1"
                p = subprocess.run([_python(), os.path.join(VERIF_DIR, "check.py"), "replay", path, "--quiet"],
                                   env=env, capture_output=True, text=True, timeout=600, cwd=VERIF_DIR)
                digs += [ln.split("=", 1)[1] for ln in p.stdout.splitlines() if ln.startswith("SCN-DIGESTS=")]
        else:
            print("SCN-DIGESTS=" + ",".join(digs))
            return 0
        flat = {d for x in digs for d in x.split(",")}
        if len(flat) > 1:
            print(f"REPRODUCED property={prop} invariant={rep['invariant']} digest_match=n/a ({len(flat)} distinct digests)")
            if not quiet:
                print(f"VIOLATION property={prop} replay={path}")
            return 1
        print(f"NOT-REPRODUCED property={prop} invariant={rep['invariant']} (all executions agree)")
        return 0
    got = violates(mod, rep["scenario"], rep["invariant"], (load_known(), prop))
    if got is None:
        got_known = violates(mod, rep["scenario"], rep["invariant"])
        if got_known is not None:
            res, item = got_known
            k = match_known(load_known(), prop, item)
            print(f"KNOWN-FINDING: property={prop} {k['id']}: {k['summary'][:200]}")
            print(f"REPRODUCED-AS-KNOWN property={prop} invariant={rep['invariant']} digest_match={res['digest'] == rep.get('expected_digest')}")
            return 0
        res = execute(mod, rep["scenario"])
        others = sorted({v["invariant"] for v in res["violations"]})
        print(f"NOT-REPRODUCED property={prop} invariant={rep['invariant']} (other invariants failing: {others})")
        return 0
    res, item = got
    same = res["digest"] == rep.get("expected_digest")
    print(f"REPRODUCED property={prop} invariant={rep['invariant']} digest_match={same}")
    if not quiet:
        print(f"  detail: {item.get('detail')}")
        print(f"VIOLATION property={prop} replay={path}")
    return 1
