"""Process bootstrap: fixed environment, library imported from the working tree.

`ensure_env()` must be called before numpy is imported (check.py does so as its
first action); it re-executes the interpreter once so that PYTHONHASHSEED and the
BLAS thread counts are what the scenario batch asks for.
"""

import os
import sys
import warnings

GUARD = "SCORE_ANALYSIS_VERIF"
VERIF_DIR = os.path.dirname(os.path.dirname(os.path.abspath(__file__)))


def wanted_env():
    return {
        "PYTHONHASHSEED": os.environ.get("VERIF_HASHSEED", "0"),
        "OMP_NUM_THREADS": "1",
        "OPENBLAS_NUM_THREADS": "1",
        "MKL_NUM_THREADS": "1",
        "PYTHONDONTWRITEBYTECODE": "1",
        GUARD: "1",
    }


def ensure_env():
    want = wanted_env()
    if all(os.environ.get(k) == v for k, v in want.items()):
        return
    if os.environ.get("SIMKIT_REEXEC") == "1":  # pragma: no cover - safety net
        raise RuntimeError("simkit: environment could not be fixed by re-exec")
    env = dict(os.environ)
    env.update(want)
    env["SIMKIT_REEXEC"] = "1"
    os.execve(sys.executable, [sys.executable] + sys.argv, env)


REPO = os.path.realpath(os.environ.get("VERIF_REPO", "/repo"))
_lib = None


def lib():
    """Imports score_analysis from the repository working tree (never from
    site-packages) and returns a namespace with the pieces the checks use."""
    global _lib
    if _lib is not None:
        return _lib
    warnings.simplefilter("ignore")
    if sys.path[0] != REPO:
        sys.path.insert(0, REPO)
    import numpy as np

    np.seterr(all="ignore")
    import score_analysis

    here = os.path.realpath(score_analysis.__file__)
    if not here.startswith(REPO + os.sep):
        raise RuntimeError(
            f"simkit: score_analysis imported from {here}, expected under {REPO}"
        )
    import score_analysis.experimental as experimental
    import score_analysis.group_scores as group_scores
    import score_analysis.roc_curve as roc_curve
    import score_analysis.scores as scores_mod
    import score_analysis.showbias as showbias_mod
    import score_analysis.utils as utils

    class L:
        pass

    L.pkg = score_analysis
    L.pkg_dir = os.path.dirname(here) + os.sep
    L.np = np
    L.Scores = score_analysis.Scores
    L.GroupScores = score_analysis.GroupScores
    L.groupwise = score_analysis.groupwise
    L.ConfusionMatrix = score_analysis.ConfusionMatrix
    L.BootstrapConfig = score_analysis.BootstrapConfig
    L.BinaryLabel = score_analysis.BinaryLabel
    L.pointwise_cm = score_analysis.pointwise_cm
    L.roc = score_analysis.roc
    L.roc_with_ci = score_analysis.roc_with_ci
    L.ROCCurve = score_analysis.ROCCurve
    L.showbias = score_analysis.showbias
    L.BiasFrame = score_analysis.BiasFrame
    L.utils = utils
    L.scores_mod = scores_mod
    L.group_scores = group_scores
    L.roc_curve = roc_curve
    L.showbias_mod = showbias_mod
    L.experimental = experimental
    _lib = L
    return L
