"""Process bootstrap: fixed environment, library imported from the working tree.

`ensure_env()` must be called before numpy is imported (check.py does so as its
first action); it re-executes the interpreter once so that PYTHONHASHSEED and the
BLAS thread counts are what the scenario batch asks for.
"""

import os
import sys
import warnings

GUARD = "SCORE_ANALYSIS_VERIF"
VERIF_DIR = os.path.dirname(os.path.dirname(os.path.abspath(__file__)))


def wanted_env():
    return {
        "PYTHONHASHSEED": os.environ.get("VERIF_HASHSEED", "0"),
        "OMP_NUM_THREADS": "1",
        "OPENBLAS_NUM_THREADS": "1",
        "MKL_NUM_THREADS": "1",
        "PYTHONDONTWRITEBYTECODE": "1",
        GUARD: "1",
    }


def ensure_env():
    want = wanted_env()
    if all(os.environ.get(k) == v for k, v in want.items()):
        return
    if os.environ.get("SIMKIT_REEXEC") == "1":  # pragma: no cover - safety net
        raise RuntimeError("simkit: environment could not be fixed by re-exec")
    env = dict(os.environ)
    env.update(want)
    env["SIMKIT_REEXEC"] = "1"
    os.execve(sys.executable, [sys.executable] + sys.argv, env)


REPO = os.path.realpath(os.environ.get("VERIF_REPO", "/repo"))
_lib = None
_lib2 = None
TWIN_ALIAS = "score_analysis_twin"
_snapshots = {}


def _snapshot(prefix):
    """Remembers the module-level and class-level mutable containers of a package copy
    as they are right after import, so that `reset_state` can bring the copy back to a
    pristine state (hidden caches, memo tables, counters kept in containers)."""
    import copy
    import inspect

    import types

    import numpy as _np

    snap = {"mods": {}, "names": {}, "bind": {}, "arrays": {}, "defaults": []}

    def _defaults(fn):
        fn = getattr(fn, "__func__", fn)
        fn = getattr(fn, "__wrapped__", fn)
        for holder in (getattr(fn, "__defaults__", None) or ()), tuple((getattr(fn, "__kwdefaults__", None) or {}).values()):
            for d in holder:
                if isinstance(d, (dict, list, set)):
                    try:
                        snap["defaults"].append((d, copy.deepcopy(d)))  # mutable default arguments are hidden state too
                    except Exception:  # noqa: BLE001
                        pass
    for name, mod in list(sys.modules.items()):
        if mod is None or not (name == prefix or name.startswith(prefix + ".")):
            continue
        snap["names"][name] = set(vars(mod))
        for k, v in list(vars(mod).items()):
            if k.startswith("__"):
                continue
            if isinstance(v, types.FunctionType) and getattr(v, "__module__", None) == name:
                _defaults(v)
            elif inspect.isclass(v) and getattr(v, "__module__", None) == name:
                for cv in vars(v).values():
                    if isinstance(cv, (types.FunctionType, staticmethod, classmethod)):
                        _defaults(cv)
            if not isinstance(v, (types.ModuleType, types.FunctionType, type)):
                snap["bind"][(name, k)] = v  # module globals that are rebound later (counters, buffers, flags)
                if isinstance(v, _np.ndarray):
                    snap["arrays"][(name, k)] = v.copy()
            if isinstance(v, (dict, list, set)):
                try:
                    snap["mods"][(name, None, k)] = copy.deepcopy(v)
                except Exception:  # noqa: BLE001
                    pass
            elif inspect.isclass(v) and getattr(v, "__module__", None) == name:
                for ck, cv in list(vars(v).items()):
                    if isinstance(cv, (dict, list, set)) and not ck.startswith("__"):
                        try:
                            snap["mods"][(name, k, ck)] = copy.deepcopy(cv)
                        except Exception:  # noqa: BLE001
                            pass
    _snapshots[prefix] = snap


def reset_state(prefix="score_analysis"):
    """Brings a package copy back to its state right after import (see _snapshot)."""
    import copy

    snap = _snapshots.get(prefix)
    if snap is None:
        return
    for (name, cls, k), v0 in snap["mods"].items():
        mod = sys.modules.get(name)
        if mod is None:
            continue
        holder = mod if cls is None else getattr(mod, cls, None)
        cur = getattr(holder, k, None) if holder is not None else None
        if isinstance(cur, dict):
            cur.clear()
            cur.update(copy.deepcopy(v0))
        elif isinstance(cur, list):
            cur[:] = copy.deepcopy(v0)
        elif isinstance(cur, set):
            cur.clear()
            cur.update(copy.deepcopy(v0))
    for d, d0 in snap.get("defaults", []):
        if isinstance(d, dict):
            d.clear()
            d.update(copy.deepcopy(d0))
        elif isinstance(d, list):
            d[:] = copy.deepcopy(d0)
        else:
            d.clear()
            d.update(copy.deepcopy(d0))
    for (name, k), v0 in snap["bind"].items():
        mod = sys.modules.get(name)
        if mod is not None and vars(mod).get(k, v0) is not v0:
            setattr(mod, k, v0)
    for (name, k), a0 in snap["arrays"].items():
        mod = sys.modules.get(name)
        cur = vars(mod).get(k) if mod is not None else None
        if cur is not None and cur.shape == a0.shape:
            try:
                cur[...] = a0
            except Exception:  # noqa: BLE001
                setattr(mod, k, a0.copy())
        elif mod is not None:
            setattr(mod, k, a0.copy())
    for name, names in snap["names"].items():
        mod = sys.modules.get(name)
        if mod is None:
            continue
        for k in list(vars(mod)):
            if k not in names and not k.startswith("__"):
                try:
                    delattr(mod, k)  # lazily created module globals
                except Exception:  # noqa: BLE001
                    pass
        for k, v in list(vars(mod).items()):
            cc = getattr(v, "cache_clear", None)
            if callable(cc):
                try:
                    cc()
                except Exception:  # noqa: BLE001
                    pass


def lib2():
    """A second, independent import of the package from the same working tree under
    another module name.  It shares no module-level or class-level state with the copy
    under test and is reset to pristine before each reference evaluation (C10)."""
    global _lib2
    if _lib2 is not None:
        return _lib2
    import importlib.util

    lib()
    pkg_dir = os.path.join(REPO, "score_analysis")
    spec = importlib.util.spec_from_file_location(TWIN_ALIAS, os.path.join(pkg_dir, "__init__.py"), submodule_search_locations=[pkg_dir])
    mod = importlib.util.module_from_spec(spec)
    sys.modules[TWIN_ALIAS] = mod
    spec.loader.exec_module(mod)
    _snapshot(TWIN_ALIAS)

    class L2:
        pass

    L2.pkg = mod
    L2.Scores = mod.Scores
    L2.GroupScores = mod.GroupScores
    L2.groupwise = mod.groupwise
    L2.ConfusionMatrix = mod.ConfusionMatrix
    L2.BootstrapConfig = mod.BootstrapConfig
    L2.BinaryLabel = mod.BinaryLabel
    L2.pointwise_cm = mod.pointwise_cm
    L2.roc = mod.roc
    L2.roc_with_ci = mod.roc_with_ci
    L2.ROCCurve = mod.ROCCurve
    _lib2 = L2
    return L2


def lib():
    """Imports score_analysis from the repository working tree (never from
    site-packages) and returns a namespace with the pieces the checks use."""
    global _lib
    if _lib is not None:
        return _lib
    warnings.simplefilter("ignore")
    if sys.path[0] != REPO:
        sys.path.insert(0, REPO)
    import numpy as np

    np.seterr(all="ignore")
    import score_analysis

    here = os.path.realpath(score_analysis.__file__)
    if not here.startswith(REPO + os.sep):
        raise RuntimeError(
            f"simkit: score_analysis imported from {here}, expected under {REPO}"
        )
    import score_analysis.experimental as experimental
    import score_analysis.group_scores as group_scores
    import score_analysis.roc_curve as roc_curve
    import score_analysis.scores as scores_mod
    import score_analysis.showbias as showbias_mod
    import score_analysis.utils as utils

    _snapshot("score_analysis")

    class L:
        pass

    L.pkg = score_analysis
    L.pkg_dir = os.path.dirname(here) + os.sep
    L.np = np
    L.Scores = score_analysis.Scores
    L.GroupScores = score_analysis.GroupScores
    L.groupwise = score_analysis.groupwise
    L.ConfusionMatrix = score_analysis.ConfusionMatrix
    L.BootstrapConfig = score_analysis.BootstrapConfig
    L.BinaryLabel = score_analysis.BinaryLabel
    L.pointwise_cm = score_analysis.pointwise_cm
    L.roc = score_analysis.roc
    L.roc_with_ci = score_analysis.roc_with_ci
    L.ROCCurve = score_analysis.ROCCurve
    L.showbias = score_analysis.showbias
    L.BiasFrame = score_analysis.BiasFrame
    L.utils = utils
    L.scores_mod = scores_mod
    L.group_scores = group_scores
    L.roc_curve = roc_curve
    L.showbias_mod = showbias_mod
    L.experimental = experimental
    _lib = L
    global _warn0
    _warn0 = list(warnings.filters)
    return L


_warn0 = None


def reset_process_env():
    """Process-wide settings a library call may have left behind (NumPy error state, warnings filters, print
    options) go back to the harness baseline at the start of every run, so that a run never depends on the runs
    this worker happened to execute before it."""
    import numpy as np

    np.seterr(all="ignore")
    if _warn0 is not None and warnings.filters != _warn0:
        warnings.filters[:] = _warn0
        if hasattr(warnings, "_filters_mutated"):
            warnings._filters_mutated()
    if np.get_printoptions()["precision"] != 8:
        np.set_printoptions(precision=8)
