"""Pipeline canary - not a property of the library.

A trivial scenario family with a *planted* violation (every run whose number is 3 mod 7
"fails").  `check.py self-check` runs the whole pipeline on it (generation, pool,
grouping, minimisation, replay file, fresh-interpreter replay, VIOLATION line, exit
code) and fails loudly if a planted violation is not reported as exit 1 with a
reproducing replay.  It guards the machinery against regressions of its own."""

import hashlib

from .. import shrink as SH

ID = "CANARY"
TIERS = {"quick": {"runs": 60, "selftest": 4, "budget_s": 120, "chunk": 10},
         "thorough": {"runs": 60, "selftest": 4, "budget_s": 120, "chunk": 10}}
RULE = "canary scenarios: an integer and a list; the run 'violates' iff x % 7 == 3"
COMPONENTS = {"real": [], "stub": ["everything"]}


def generate(rnd, tier):
    return {"np_seed": rnd.randrange(2**31), "x": rnd.randrange(1000), "pad": [rnd.random() for _ in range(rnd.randint(1, 20))]}


def execute(scn, ctx):
    import numpy as np

    ctx.seam.seed(scn["np_seed"])
    v = float(np.random.random_sample())  # the faithful stream is part of the trace
    viol = []
    if scn["x"] % 7 == 3:
        viol.append({"invariant": "CANARY.planted", "detail": f"x = {scn['x']}", "tags": {}})
    return {"violations": viol, "trace": [[scn["x"], len(scn["pad"]), repr(v)]], "stats": {"ops": 1, "faults": {}, "probes": {}},
            "signature": hashlib.sha1(str(scn["x"] % 50).encode()).hexdigest(), "nontrivial": True, "states": [str(scn["x"] % 7)]}


def shrink(scn):
    for cand in SH.drop_chunks(scn["pad"], min_len=0):
        yield SH.with_path(scn, ["pad"], cand)
    if scn["x"] >= 7:
        yield SH.with_path(scn, ["x"], scn["x"] - 7 * (scn["x"] // 7))
