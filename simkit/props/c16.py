"""C16 - ROC confidence bands are well-formed envelopes of pointwise rectangles.

System: real roc_with_ci and the three experimental band functions.
Seams: recording sampler (identity / wrapper around built-in configurations /
degenerate), global RNG (forced degenerate resamples, interference, reseeds).
Oracle: rates match thresholds; shapes, NaN-freeness, ordering, range; for
roc_with_ci the bands are recomputed from the *recorded* resamples with an independent
CI implementation, rule-of-three substitution and rectangle envelope.
"""

import copy
import hashlib
import json
import math

import numpy as np

from .. import model as M
from .. import shrink as SH
from ..boot import lib
from ..ops import run_op
from . import c11

ID = "C16"
TIERS = {
    "quick": {"runs": 8000, "selftest": 16, "budget_s": 240, "chunk": 80},
    "thorough": {"runs": 90000, "selftest": 64, "budget_s": 1500, "chunk": 200},
}
RULE = (
    "run i is generated from SHA-256(VERIF_SEED:C16:i): one Scores source (both classes non-empty, 1-40 scores per class or "
    "100-260, ties, values shared across classes, integer dtype, 4 flag pairs, sometimes easy samples) and 1-4 band "
    "computations (roc_with_ci, pointwise_band_ci, simultaneous_joint_region_ci, fixed_width_band_ci) over every combination "
    "of fnr/fpr/thresholds/nb_points, 8 x-axes, alpha in [0.01, 0.5], quantile/bc/bca, nb_samples 2-60, samplers identity / "
    "recording wrapper around replacement/single_pass/dynamic/proportion x None/by_label x smoothing / built-in string / "
    "degenerate, with 0-3 planned faults (forced draws, interference) and reseeds. Non-trivial: every run; distinct = distinct "
    "abstract trace signatures."
     " Later rounds added: list/tuple support points, class sizes 41-130 and 280-420, float32/unsigned dtypes, re-entrant and raising samplers (exception types), "
    "user-subclass sources with their own bootstrap_sample, unhashable samplers, callable sampler x stratification flag, resample-count check, state-leak probes, alpha up to 0.95."
    " Round 14: the fine user grid reaches 2100-2700 support points every other time, with identity or recorded resamples."
)
COMPONENTS = {
    "real": ["roc_curve.roc_with_ci, _find_support_thresholds, _apply_rule_of_three, _aggregate_rectangles, experimental.roc_ci.* "
             "(from /repo working tree)", "Scores.bootstrap_ci / bootstrap_sample / threshold_at_* / fnr / fpr", "numpy global RandomState"],
    "stub": ["sampler callbacks", "forced draw outcomes", "interference"],
}
ASSUMPTIONS = [
    "with easy samples 'rate exactly 0 or 1' and the code's trigger/n diverge: every combination of n in {scored, all} and trigger in {exact, library's} is admitted by the envelope refinement; rectangles whose bound is within 1e-9 of a point may or may not count as covering it",
    "Scores.fnr/fpr/threshold_at_* evaluated on recorded resamples are trusted components of the reference (they are the subject of C01-C03, not claimed here)",
    "a point's own rectangle is accepted in the envelope whether or not it covers the point",
    "fixed_width_band_ci is exercised only with supports spanning the whole curve (nb_points or all scores)",
]
PROBES = ["sampler_reenter_fired", "envelope_checked_easy", "caller_reuses_buffers", "interrupt_fired", "sampler_raise_fired", "rule_of_three_low", "rule_of_three_high", "identity_sampler", "recording_builtin", "builtin_string", "degenerate_sampler",
          "envelope_checked", "easy_source", "experimental_pointwise", "experimental_sjr", "experimental_fwb", "supplied_fnr",
          "supplied_fpr", "supplied_thresholds", "nb_points_given", "bca", "bc", "quantile", "envelope_widened"]

FUNCS = ["roc_with_ci", "roc_with_ci", "roc_with_ci", "pointwise_band_ci", "simultaneous_joint_region_ci", "fixed_width_band_ci"]
X_AXES = ["fnr", "fpr", "tnr", "tpr", "far", "frr", "tar", "trr"]


# --------------------------------------------------------------------------
# generation


def gen_rates(rnd):
    n = rnd.randint(1, 5)
    return sorted({rnd.choice([0.0, 1.0, 0.5, round(rnd.uniform(0, 1), 3), round(rnd.uniform(0, 0.2), 4)]) for _ in range(n)})


def generate(rnd, tier):
    big = rnd.random() < 0.09
    obj = c11.gen_source(rnd, "large" if big else rnd.choice(["tiny", "small", "small"]), False, allow_extreme=False)
    r_ = rnd.random()
    if not big and r_ < 0.2:
        # class sizes between the small and the large regime (41-130), and now and then very large ones
        # (more than 512 support points): size-dependent branches and blocked/vectorised paths live there
        for key in ("pos", "neg"):
            obj[key] = c11.gen_values(rnd, rnd.randint(41, 130), obj.get("style", "unique") if obj.get("style") != "const" else "ties", -3.0, 6.0)
            if obj.get("dtype") == "int64":
                obj[key] = [int(v) for v in obj[key]]
        big = True
    elif big and r_ < 0.25:
        for key in ("pos", "neg"):
            obj[key] = c11.gen_values(rnd, rnd.randint(280, 420), "unique", -3.0, 6.0)
        obj["dtype"] = "float64"
    if rnd.random() < 0.7:
        obj["nb_easy_pos"] = obj["nb_easy_neg"] = 0
    c11.coerce_values(obj)
    if rnd.random() < 0.15:
        # the caller's object is of a user subclass with its own resampling (recorded, or a deterministic one)
        obj["subclass"] = rnd.choice(["recording", "recording", "identity"])
    ops = []
    fault_free = rnd.random() < 0.34
    for _ in range(rnd.randint(1, 3 if big else 4)):
        if rnd.random() < 0.1:
            ops.append({"op": "reseed", "seed": rnd.randrange(2**31)})
            continue
        fn = rnd.choice(FUNCS)
        args = {}
        if fn == "fixed_width_band_ci":
            if rnd.random() < 0.6:
                args["nb_points"] = rnd.randint(4, 30)
        else:
            if rnd.random() < 0.35:
                args["fnr"] = gen_rates(rnd)
            if rnd.random() < 0.35:
                args["fpr"] = gen_rates(rnd)
            if rnd.random() < 0.3:
                args["thresholds"] = [round(rnd.uniform(-7, 7), 2) for _ in range(rnd.randint(1, 5))]
                if rnd.random() < 0.5:
                    args["thresholds"] = sorted(args["thresholds"], reverse=rnd.random() < 0.3)
            if rnd.random() < 0.5:
                args["nb_points"] = rnd.choice([2, 3, 5, 10, 11, 30])
        if fn == "roc_with_ci" and rnd.random() < 0.6:
            args["x_axis"] = rnd.choice(X_AXES)
        arg_types = {k_: rnd.choice(["ndarray", "ndarray", "list", "tuple"]) for k_ in ("fnr", "fpr", "thresholds") if k_ in args}
        args["alpha"] = rnd.choice([0.05, 0.01, 0.5, round(rnd.uniform(0.01, 0.5), 3), round(rnd.uniform(0.5, 0.95), 2), 0.001])
        if rnd.random() < 0.25:
            args["alpha_type"] = rnd.choice(["float32", "float32", "float16"])
        r = rnd.random()
        if r < 0.2:
            sampler = {"callable": "identity"}
        elif r < 0.27:
            sampler = {"callable": "degenerate", "which": rnd.randrange(4)}
        else:
            method = rnd.choice(["replacement", "single_pass", "dynamic", "proportion"])
            inner = {"sampling_method": method, "stratified_sampling": rnd.choice([None, None, "by_label"])}
            if method == "proportion":
                inner["ratio"] = rnd.choice([0.3, 0.5, 0.8])
            if method in ("replacement", "dynamic") and rnd.random() < 0.12:
                inner["smoothing"] = True
            sampler = {"callable": "recording", "inner": inner} if rnd.random() < 0.75 else inner
            if "callable" in sampler and rnd.random() < 0.12:
                sampler["reenter"] = True
        if "callable" in sampler and rnd.random() < 0.25:
            sampler["outer_strat"] = "by_label"  # a built-in flag next to a callable sampler: nothing for it to act on
        cfg = {"nb_samples": rnd.randint(2, 8 if big else 60) if rnd.random() < 0.8 else rnd.randint(2, 6),
               "bootstrap_method": rnd.choice(["quantile", "bc", "bca"])}
        op = {"op": "band", "fn": fn, "args": args, "sampler": sampler, "cfg": cfg, "arg_types": arg_types}
        if not fault_free and rnd.random() < 0.12:
            # control-flow faults: the call may fail, the caller's objects must survive intact
            if sampler.get("callable") and rnd.random() < 0.5:
                op["faults"] = [{"kind": "sampler_raise", "call": rnd.randint(0, cfg["nb_samples"]),
                                 "exc": rnd.choice(["CallbackFault", "StopIteration", "ValueError", "KeyError", "RuntimeError"])}]
            else:
                op["faults"] = [{"kind": "interrupt", "at_line": int(10 ** rnd.uniform(0.3, 4.3)), "exc": rnd.choice(["SimInterrupt", "MemoryError"])}]
        elif not fault_free and sampler.get("callable") in (None, "recording") and rnd.random() < 0.6:
            fl = []
            for _ in range(rnd.choice([1, 1, 2, 3])):
                if rnd.random() < 0.2:
                    fl.append({"kind": "interference", "at": rnd.randint(0, 60), "k": rnd.randint(1, 4)})
                else:
                    f = {"kind": rnd.choice(c11.DRAW_FAULTS)}
                    if rnd.random() < 0.4:
                        f["at"] = rnd.randint(0, 60)
                    else:
                        f["every"] = rnd.choice([1, 1, 2, 3, 5])
                        f["offset"] = rnd.randint(0, 4)
                    fl.append(f)
            op["faults"] = fl
        ops.append(op)
    if rnd.random() < 0.03:
        # default support (all scores) whose size is a power of two, a class of two or three scores in the middle of the
        # other one, a random sampler: some pointwise interval spans all rates
        total = rnd.choice([56, 56, 120])
        n_small = rnd.choice([2, 3])
        big_vals = rnd.sample(sorted({round(rnd.uniform(-3, 3), 3) for _ in range(4 * total)}), total - n_small)
        small_vals = [round(rnd.uniform(-0.5, 0.5), 4) + 0.00005 for _ in range(n_small)]
        flip = rnd.random() < 0.5
        obj.update({"pos": small_vals if not flip else big_vals, "neg": big_vals if not flip else small_vals, "dtype": "float64",
                    "nb_easy_pos": 0, "nb_easy_neg": 0})
        for k_ in ("user_init", "container", "subclass", "via", "dtype_neg", "synth"):
            obj.pop(k_, None)
        ops = [{"op": "band", "fn": "roc_with_ci", "args": {"alpha": rnd.choice([0.05, 0.1, 0.3])},
                "sampler": {"callable": "recording", "inner": {"sampling_method": "replacement", "stratified_sampling": rnd.choice([None, "by_label"])}},
                "cfg": {"nb_samples": rnd.randint(4, 25), "bootstrap_method": rnd.choice(["quantile", "bca"])}, "arg_types": {}}
               for _ in range(rnd.randint(1, 2))]
    if rnd.random() < 0.007:
        # a very fine user grid (more than a thousand, every other time more than 2048 support points: beyond any block size a
        # vectorised envelope would use) on a small data set, identity sampler or recorded resamples
        lo_, n_ = round(rnd.uniform(-8, -4), 2), rnd.choice([rnd.randint(1050, 1600), rnd.randint(2100, 2700)])
        smp_ = rnd.choice([{"callable": "identity"}, {"callable": "identity"},
                           {"callable": "recording", "inner": {"sampling_method": "replacement", "stratified_sampling": rnd.choice([None, "by_label"])}}])
        ops.append({"op": "band", "fn": rnd.choice(["roc_with_ci", "roc_with_ci", "simultaneous_joint_region_ci"]),
                    "args": {"alpha": 0.1, "thresholds": [round(lo_ + 0.01 * k_, 2) for k_ in range(n_)]}, "sampler": smp_,
                    "cfg": {"nb_samples": 2, "bootstrap_method": "quantile"}, "arg_types": {"thresholds": "ndarray"}})
    if not any(o["op"] == "band" for o in ops):
        ops.append({"op": "band", "fn": "roc_with_ci", "args": {"alpha": 0.05}, "sampler": {"callable": "identity"},
                    "cfg": {"nb_samples": 3, "bootstrap_method": "bca"}})
    return {"np_seed": rnd.randrange(2**31), "object": obj, "ops": ops}


# --------------------------------------------------------------------------
# reference model


def rule_of_three(p, ci, alpha, n, trigger_n=None):
    """An observed rate of exactly 0 / 1 uses [0, 1 - alpha^(1/n)] / [alpha^(1/n), 1].
    With trigger_n the trigger is the library's `p < 1/trigger_n`, `p > (trigger_n-1)/trigger_n` instead of
    exact 0 / 1 (the two coincide when there are no easy samples; with easy samples both readings are admitted)."""
    out = np.array(ci, dtype=float, copy=True)
    lo = 1.0 - math.pow(alpha, 1.0 / n)
    hi = math.pow(alpha, 1.0 / n)
    n0 = n1 = 0
    for i, v in enumerate(p):
        low = v == 0.0 if trigger_n is None else v < 1.0 / trigger_n
        high = v == 1.0 if trigger_n is None else v > (trigger_n - 1) / trigger_n
        if high:
            out[i] = (hi, 1.0)
            n1 += 1
        elif low:
            out[i] = (0.0, lo)
            n0 += 1
    return out, n0, n1


def envelope(x, dx, dy, include_own):
    """Plain envelope (exact comparisons); used for reporting."""
    n = len(x)
    lower = np.empty(n)
    upper = np.empty(n)
    for i in range(n):
        los, ups = [], []
        for j in range(n):
            covers = dx[j, 0] <= x[i] <= dx[j, 1]
            if covers or (include_own and j == i):
                los.append(dy[j, 0])
                ups.append(dy[j, 1])
        lower[i] = min(los) if los else np.nan
        upper[i] = max(ups) if ups else np.nan
    return np.stack([lower, upper], axis=-1)


def band_matches(got, x, dx, dy, eps=1e-9):
    """The band at a point is the envelope of the rectangles covering it.  Whether a rectangle covers a
    point is a discontinuous question: an interval bound computed as a quantile can differ by one ulp
    between two correct implementations and flip it (seen in the thorough tier: 0.33333333333333337 vs
    0.3333333333333333).  Rectangles whose bound lies within eps of the point are therefore *ambiguous* and
    may or may not contribute, as may the point's own rectangle when it does not cover the point."""
    got = np.asarray(got, dtype=float)
    n = len(x)
    ref = envelope(x, dx, dy, True)
    if got.shape != (n, 2):
        return False, ref
    for i in range(n):
        sure_lo, sure_up, amb_lo, amb_up = [], [], [], []
        for j in range(n):
            covers = dx[j, 0] <= x[i] <= dx[j, 1]
            exact_edge = covers and (x[i] == dx[j, 0] or x[i] == dx[j, 1])  # closed intervals: a bound that is hit exactly covers
            inside = (dx[j, 0] + eps <= x[i] <= dx[j, 1] - eps) or exact_edge
            near = (dx[j, 0] - eps <= x[i] <= dx[j, 1] + eps) and not inside
            if inside:
                sure_lo.append(dy[j, 0])
                sure_up.append(dy[j, 1])
            elif near or j == i:
                amb_lo.append(dy[j, 0])
                amb_up.append(dy[j, 1])
        base_lo = min(sure_lo) if sure_lo else np.inf
        base_up = max(sure_up) if sure_up else -np.inf
        cand_lo = [base_lo] + [min(base_lo, v) for v in amb_lo]
        cand_up = [base_up] + [max(base_up, v) for v in amb_up]
        ok_lo = any(np.isfinite(c) and abs(got[i, 0] - c) <= 1e-9 + 1e-9 * abs(c) for c in cand_lo)
        ok_up = any(np.isfinite(c) and abs(got[i, 1] - c) <= 1e-9 + 1e-9 * abs(c) for c in cand_up)
        if not (ok_lo and ok_up):
            return False, ref
    return True, ref


class CallbackFault(Exception):
    pass


def _leak_probes(L):
    """Small documented calls that work in a fresh process (checked on the unchanged tree by the self-test below):
    scores at 0.0 (nextafter towards the subnormals), ties, rates at 0 and 1."""
    a = L.Scores(pos=[0.0, 1.0, 2.0, 2.0], neg=[-1.0, 0.0, 0.5])
    b = L.Scores(pos=[1e-300, 0.5, 3.0], neg=[-2.0, 0.0, 1e-300], score_class="neg")
    out = []
    for src in (a, b):
        out.append(("roc_with_ci", src, {"alpha": 0.1}))
        out.append(("roc_with_ci", src, {"alpha": 0.1, "fnr": np.array([0.0, 0.5, 1.0]), "nb_points": 5}))
        out.append(("pointwise_band_ci", src, {"alpha": 0.1, "nb_points": 5}))
        out.append(("simultaneous_joint_region_ci", src, {"alpha": 0.1, "nb_points": 5}))
        out.append(("fixed_width_band_ci", src, {"alpha": 0.1, "nb_points": 10}))
    return out


class RecSampler:
    def __init__(self, kind, inner_config, which=0, raise_at=None):
        self.kind, self.inner, self.which = kind, inner_config, which
        self.outputs = []
        self.raise_at = raise_at
        self.raised = False
        self.calls = 0
        self.reenter = False
        self.reentered = False
        self.nested = False
        self.raise_exc = None
        self.limit, self.runaway = None, False

    def __call__(self, source, **kw):
        L = lib()
        self.calls += 1
        if self.limit is not None and self.calls > self.limit:
            # an operation that keeps drawing is stopped from inside, deterministically (not by the wall clock)
            self.runaway = True
            raise RuntimeError(f"simkit: sampler invoked {self.calls} times")
        if self.raise_at is not None and self.calls - 1 == self.raise_at:
            self.raised = True
            raise {"StopIteration": StopIteration, "ValueError": ValueError, "KeyError": KeyError, "RuntimeError": RuntimeError}.get(
                self.raise_exc, CallbackFault)(f"planned failure of sampler call {self.raise_at}")
        if self.reenter and self.calls % 3 == 1:
            # re-entrant user code: queries and a nested resample on the object the library is in the middle of using
            self.reentered = True
            source.cm(np.array([0.0]))
            source.swap()
            source.bootstrap_sample(L.BootstrapConfig(sampling_method="replacement"))
            if not self.nested:
                # a nested band computation with other support points while the outer one is in flight
                self.nested = True
                try:
                    L.roc_with_ci(source, nb_points=5, alpha=0.3, config=L.BootstrapConfig(nb_samples=2, bootstrap_method="quantile",
                                                                                          sampling_method=lambda s_: s_))
                finally:
                    self.nested = False
        if self.kind == "identity":
            out = source
        elif self.kind == "recording":
            out = source.bootstrap_sample(self.inner)
        else:
            # degenerate but legal resamples: one score per class / constant classes
            k = len(self.outputs) + self.which
            p = np.asarray(source.pos)
            n = np.asarray(source.neg)
            if self.which % 2 == 0:
                pos, neg = p[[k % len(p)]], n[[(k * 3) % len(n)]]
            else:
                pos, neg = np.repeat(p[[k % len(p)]], len(p)), np.repeat(n[[(k + 1) % len(n)]], len(n))
            out = L.Scores(pos, neg, nb_easy_pos=source.nb_easy_pos, nb_easy_neg=source.nb_easy_neg,
                           score_class=source.score_class, equal_class=source.equal_class)
        self.outputs.append(out)
        return out


# --------------------------------------------------------------------------
# execution


def execute(scn, ctx):
    L = lib()
    seam = ctx.seam
    seam.seed(scn["np_seed"])
    spec = scn["object"]
    src, callers = M.build_scores(spec)
    cfp = callers.fp0
    easy = bool(src.nb_easy_pos or src.nb_easy_neg)
    user_outputs = []
    if spec.get("subclass"):
        base_cls = type(src)
        sub_kind = spec["subclass"]

        class UserScores(base_cls):
            def bootstrap_sample(self, config=None, **kw_):
                out = self if sub_kind == "identity" else base_cls.bootstrap_sample(self, config, **kw_) if config is not None \
                    else base_cls.bootstrap_sample(self, **kw_)
                user_outputs.append(out)
                return out

        src.__class__ = UserScores
    viol, trace, sig = [], [], []
    probes, faults = {}, {}
    n_draws = n_forced = 0
    states = set()

    def probe(name, k=1):
        probes[name] = probes.get(name, 0) + k

    if easy:
        probe("easy_source")
    import warnings as _warnings

    env0 = (dict(np.geterr()), len(_warnings.filters))
    for step, op in enumerate(scn["ops"]):
        if op["op"] == "reseed":
            seam.seed(op["seed"])
            trace.append([step, "reseed"])
            sig.append("reseed")
            continue
        fn_name, args, sspec, cfg = op["fn"], op["args"], op["sampler"], op["cfg"]
        s_kind = sspec.get("callable") or "builtin"
        tags = {"fn": fn_name, "sampler": s_kind, "method": cfg["bootstrap_method"]}
        probe({"identity": "identity_sampler", "recording": "recording_builtin", "builtin": "builtin_string", "degenerate": "degenerate_sampler"}[s_kind])
        probe(cfg["bootstrap_method"])
        for k_, pn in (("fnr", "supplied_fnr"), ("fpr", "supplied_fpr"), ("thresholds", "supplied_thresholds"), ("nb_points", "nb_points_given")):
            if k_ in args:
                probe(pn)
        sampler = None
        del user_outputs[:]
        if spec.get("subclass"):
            probe("subclass_source_" + spec["subclass"])
        if s_kind != "builtin":
            inner = M.build_config(dict(sspec.get("inner", {}), nb_samples=1)) if s_kind == "recording" else None
            ra = next((f["call"] for f in (op.get("faults") or []) if f["kind"] == "sampler_raise"), None)
            sampler = RecSampler(s_kind, inner, sspec.get("which", 0), raise_at=ra)
            sampler.reenter = bool(sspec.get("reenter"))
            sampler.raise_exc = next((f.get("exc") for f in (op.get("faults") or []) if f["kind"] == "sampler_raise"), None)
            sampler.limit = 6 * int(cfg["nb_samples"]) + 40
            config = M.build_config(dict(cfg, sampling_method={"callable": s_kind}, stratified_sampling=sspec.get("outer_strat")), sampler=sampler)
        else:
            config = M.build_config(dict(sspec, **cfg))
        kw = {}
        arrs = []
        for k_ in ("fnr", "fpr", "thresholds"):
            if k_ in args:
                as_ = (op.get("arg_types") or {}).get(k_, "ndarray")
                if as_ == "list" and fn_name == "roc_with_ci":
                    kw[k_] = [float(v) for v in args[k_]]  # documented as ArrayLike
                elif as_ == "tuple" and fn_name == "roc_with_ci":
                    kw[k_] = tuple(float(v) for v in args[k_])
                else:
                    kw[k_] = np.asarray(args[k_], dtype=float)
                    arrs.append(kw[k_])
        if "nb_points" in args:
            kw["nb_points"] = args["nb_points"]
        if "x_axis" in args:
            kw["x_axis"] = args["x_axis"]
        alpha = float(args.get("alpha", 0.05))
        kw["alpha"] = alpha
        if args.get("alpha_type") in ("float32", "float16") and s_kind == "identity" and fn_name == "roc_with_ci":
            # the significance level as a narrow NumPy scalar (read from a float32 config array).  Only with the identity
            # sampler: there every bootstrap interval is degenerate whatever the level, so the closed form depends on
            # alpha through the rule of three alone, and that is a function of alpha's exact value
            a_ = getattr(np, args["alpha_type"])(alpha)
            if 0.0 < float(a_) < 1.0:
                alpha = float(a_)
                kw["alpha"] = a_
                probe("narrow_alpha")
        arr_fp = M.fingerprint(arrs)
        fp_before = M.fingerprint(src)
        func = L.roc_with_ci if fn_name == "roc_with_ci" else getattr(L.experimental, fn_name)
        probe({"pointwise_band_ci": "experimental_pointwise", "simultaneous_joint_region_ci": "experimental_sjr",
               "fixed_width_band_ci": "experimental_fwb"}.get(fn_name, "quantile"), 1 if fn_name != "roc_with_ci" else 0)
        res = run_op(ctx, lambda: func(src, config=config, **kw), op.get("faults"))
        n_draws += res["draws"]
        fired = [kd for _, kd in res["fired"]]
        n_forced += sum(1 for kd in fired if kd != "interference")
        if res["interrupted"]:
            fired.append("interrupt")
        if sampler is not None and sampler.raised:
            fired.append("sampler_raise")
        if sampler is not None and sampler.reentered:
            fired.append("sampler_reenter")
            probe("sampler_reenter_fired")
        control_fault = res["interrupted"] or (sampler is not None and sampler.raised)
        if res["interrupted"]:
            probe("interrupt_fired")
        if sampler is not None and sampler.raised:
            probe("sampler_raise_fired")
        for kd in fired:
            faults[kd] = faults.get(kd, 0) + 1

        def bad(name, detail):
            viol.append({"invariant": f"C16.{name}", "detail": f"{detail} [op {step}]", "tags": tags})

        # A call (failed or not) that leaves NumPy's error state or the warnings filters changed affects every later
        # call of the process.  The consequence is what counts: documented calls on small fixed inputs, which work under
        # the state the process had before, are repeated under the state it was left in.
        env_now = (dict(np.geterr()), len(_warnings.filters))
        if env_now != env0:
            probe("process_state_changed")
            for pf_name, pf_src, pf_kw in _leak_probes(L):
                try:
                    pf = L.roc_with_ci if pf_name == "roc_with_ci" else getattr(L.experimental, pf_name)
                    with _warnings.catch_warnings():
                        pf(pf_src, config=L.BootstrapConfig(nb_samples=3, bootstrap_method="quantile", sampling_method=lambda s_: s_), **pf_kw)
                except Exception as e:  # noqa: BLE001
                    bad("accepts_documented_arguments", f"after {fn_name} left the process with NumPy error state {env_now[0]} (before: {env0[0]}) and "
                                                        f"{env_now[1]} warnings filters (before: {env0[1]}), {pf_name}(pos={np.asarray(pf_src.pos).tolist()}, "
                                                        f"neg={np.asarray(pf_src.neg).tolist()}) raises {type(e).__name__}: {e}")
                    break
            np.seterr(**env0[0])
            del _warnings.filters[: max(0, len(_warnings.filters) - env0[1])]
        if M.fingerprint(src) != fp_before or M.fingerprint(list(callers.values())) != cfp or M.fingerprint(arrs) != arr_fp:
            bad("inputs_unchanged", f"{fn_name} modified the Scores object or a caller-supplied array")
        if sampler is not None and not control_fault and fn_name != "simultaneous_joint_region_ci" and spec.get("subclass") != "identity" and (sampler.runaway or (res["ok"] and sampler.calls != int(cfg["nb_samples"]))):
            # the intervals are bootstrap intervals of the configured number of resamples of the configured sampler
            bad("resamples_match_config", f"{fn_name} invoked the configured sampler {'more than ' + str(sampler.limit) if sampler.runaway else sampler.calls} times "
                                          f"for nb_samples={cfg['nb_samples']}")
            if sampler.runaway:
                control_fault = True
        outcome = "ok"
        swallowed = False
        if res["ok"] and sampler is not None and sampler.raised and sampler.calls - 1 <= int(cfg["nb_samples"]) - 1:
            # the sampler failed on one of the nb_samples draws, yet a curve came back: the failure was swallowed and the
            # bands cannot be those of the configured sampler (fail-or-correct, and "correct" is impossible here)
            bad("sampler_failure_swallowed", f"{fn_name}: the sampler raised {sampler.raise_exc or 'CallbackFault'} on call {sampler.raise_at} of "
                                             f"{cfg['nb_samples']} but a result was returned")
            swallowed = True
        if swallowed:
            outcome = "returned-after-swallowed-failure"  # whatever came back is not worth checking (typically uninitialised memory)
        elif not res["ok"] and control_fault:
            outcome = "failed-after-fault"  # fail-or-correct: raising is fine, the inputs were checked above
        elif not res["ok"]:
            outcome = "raise:" + type(res["value"]).__name__
            tags = dict(tags, error=f"{type(res['value']).__name__}: {str(res['value'])[:80]}")
            bad("accepts_documented_arguments", f"{fn_name}({', '.join(sorted(kw))}) raised {type(res['value']).__name__}: {res['value']}")
        else:
            curve = res["value"]
            if not isinstance(curve, L.ROCCurve):
                bad("returns_curve", f"{fn_name} returned {type(curve).__name__}")
            else:
                thr = np.asarray(curve.thresholds, dtype=float)
                fnr, fpr = np.asarray(curve.fnr, dtype=float), np.asarray(curve.fpr, dtype=float)
                n = len(thr)
                if not (M.same(np.asarray(curve.fnr), np.asarray(src.fnr(thr))) and M.same(np.asarray(curve.fpr), np.asarray(src.fpr(thr)))):
                    bad("rates_match_thresholds", "curve.fnr/fpr differ from scores.fnr/fpr(curve.thresholds)")
                # documented: "We will use the union of these points" - supplied support points must be on the curve
                try:
                    want = []
                    if "thresholds" in args:
                        want += [float(v) for v in args["thresholds"]]
                    if "fnr" in args:
                        want += np.asarray(src.threshold_at_fnr(np.asarray(args["fnr"], dtype=float)), dtype=float).tolist()
                    if "fpr" in args:
                        want += np.asarray(src.threshold_at_fpr(np.asarray(args["fpr"], dtype=float)), dtype=float).tolist()
                    missing = [v for v in want if not np.any(thr == v)]
                    if missing:
                        bad("supplied_points_present", f"supplied support points (as thresholds) {missing[:5]} are not among the curve's thresholds")
                except Exception as e:  # noqa: BLE001
                    raise RuntimeError(f"C16 support-point reference failed: {type(e).__name__}: {e}") from e
                shapes_ok = True
                for nm in ("fnr_ci", "fpr_ci"):
                    b = getattr(curve, nm)
                    if b is None or np.shape(b) != (n, 2):
                        bad("band_shape", f"{nm} has shape {None if b is None else np.shape(b)}, expected ({n}, 2)")
                        shapes_ok = False
                        continue
                    b = np.asarray(b, dtype=float)
                    if np.isnan(b).any():
                        bad("band_nan_free", f"{nm} contains NaN at rows {np.nonzero(np.isnan(b).any(axis=1))[0][:5].tolist()}")
                    elif not np.all(b[:, 0] <= b[:, 1]):
                        w = int(np.argmax(b[:, 0] > b[:, 1]))
                        bad("band_ordered", f"{nm}[{w}] = {b[w].tolist()} has lower > upper")
                    if fn_name == "roc_with_ci" and not np.isnan(b).any() and (b.min() < 0.0 or b.max() > 1.0):
                        bad("band_in_unit_interval", f"{nm} leaves [0,1]: min {b.min()!r} max {b.max()!r}")
                # ---- the object that is resampled is the caller's: a subclass's own bootstrap_sample is what draws
                # (simultaneous_joint_region_ci is analytic and draws nothing)
                if spec.get("subclass") and sampler is None and not control_fault and fn_name != "simultaneous_joint_region_ci" \
                        and len(user_outputs) != int(cfg["nb_samples"]):
                    bad("resamples_drawn_from_callers_object", f"{fn_name} returned bands for nb_samples={cfg['nb_samples']} but the bootstrap_sample method of "
                                                                f"the object that was passed (a user subclass) was called {len(user_outputs)} times")
                recorded = sampler.outputs if sampler is not None else list(user_outputs) if spec.get("subclass") else None
                if recorded is not None and sampler is not None and spec.get("subclass") == "identity":
                    recorded = None  # the subclass ignores the configured sampler: nothing to compare the recording with
                # ---- envelope refinement from the recorded resamples
                if fn_name == "roc_with_ci" and shapes_ok and recorded is not None and not control_fault \
                        and len(recorded) == int(cfg["nb_samples"]):
                    try:
                        reps = []
                        for s in recorded:
                            reps.append(np.stack([np.asarray(s.fnr(s.threshold_at_fpr(fpr)), dtype=float),
                                                  np.asarray(s.fpr(s.threshold_at_fnr(fnr)), dtype=float)], axis=0))
                        theta = np.stack(reps, axis=0)
                        est = np.stack([np.asarray(src.fnr(src.threshold_at_fpr(fpr)), dtype=float),
                                        np.asarray(src.fpr(src.threshold_at_fnr(fnr)), dtype=float)], axis=0)
                        joint = M.ref_ci(theta, est, alpha, cfg["bootstrap_method"])  # (2, n, 2)
                        # Without easy samples "rate exactly 0 or 1" and the library's trigger coincide and n is the class
                        # size.  With easy samples the statement and the code diverge (which n? which trigger?): every
                        # combination of (n = scored or all samples) x (trigger = exact 0/1 or the library's) is admitted.
                        if not easy:
                            readings = [(len(src.pos), len(src.neg), None, None)]
                        else:
                            readings = [(np_, nn_, tp_, tn_) for (np_, nn_) in ((len(src.pos), len(src.neg)), (src.nb_all_pos, src.nb_all_neg))
                                        for (tp_, tn_) in ((None, None), (len(src.pos), len(src.neg)), (src.nb_all_pos, src.nb_all_neg))]
                            probe("envelope_checked_easy")
                        for (np_, nn_, tp_, tn_) in readings:
                            fnr_ci, a0, a1 = rule_of_three(fnr, joint[0], alpha, np_, tp_)
                            fpr_ci, b0, b1 = rule_of_three(fpr, joint[1], alpha, nn_, tn_)
                            ok1, exp_fpr_band = band_matches(curve.fpr_ci, fnr, fnr_ci, fpr_ci)
                            ok2, exp_fnr_band = band_matches(curve.fnr_ci, fpr, fpr_ci, fnr_ci)
                            if ok1 and ok2:
                                break
                        probe("rule_of_three_low", a0 + b0)
                        probe("rule_of_three_high", a1 + b1)
                        probe("envelope_checked")
                        if not M.close(exp_fpr_band, fpr_ci, 1e-12) or not M.close(exp_fnr_band, fnr_ci, 1e-12):
                            probe("envelope_widened")
                        if not ok1:
                            bad("envelope", f"fpr_ci = {np.asarray(curve.fpr_ci).tolist()} but the envelope of the pointwise rectangles "
                                            f"(bootstrap intervals of the recorded resamples + rule of three) is {exp_fpr_band.tolist()}")
                        if not ok2:
                            bad("envelope", f"fnr_ci = {np.asarray(curve.fnr_ci).tolist()} but the envelope of the pointwise rectangles "
                                            f"(bootstrap intervals of the recorded resamples + rule of three) is {exp_fnr_band.tolist()}")
                    except Exception as e:  # noqa: BLE001 - reference could not be evaluated: harness problem, surface it
                        raise RuntimeError(f"C16 reference model failed: {type(e).__name__}: {e}") from e
        # the caller reuses its argument buffers after the call: the curve it was handed must not change
        if res["ok"] and isinstance(res["value"], L.ROCCurve) and arrs and not swallowed:
            before = M.canon(res["value"])
            for a_ in arrs:
                if a_.flags.writeable and a_.size:
                    a_ += 0.37
                    a_[:] = a_[::-1].copy()
            probe("caller_reuses_buffers")
            if M.canon(res["value"]) != before:
                bad("result_independent_of_caller_arrays", f"the curve returned by {fn_name} changed when the caller wrote into the "
                                                           f"fnr/fpr/thresholds arrays it had passed (the curve aliases a caller array)")
        trace.append([step, fn_name, tags, sorted(kw), sorted(set(fired)), outcome,
                      M.digest(M.canon(res["value"]))[:16] if res["ok"] and not control_fault else None, res["draws"]])
        inner = sspec.get("inner", sspec)
        sig.append(f"{fn_name}|{s_kind}|{inner.get('sampling_method', '')}|{inner.get('stratified_sampling', '')}|{inner.get('smoothing', '')}|"
                   f"{cfg['bootstrap_method']}|{','.join(k_ for k_ in ('fnr', 'fpr', 'thresholds', 'nb_points', 'x_axis') if k_ in args)}|"
                   f"{','.join(sorted(set(fired)))}|{outcome}")
        states.add(f"{fn_name}|{s_kind}|{cfg['bootstrap_method']}|{c11.size_class_of(src)}|{src.score_class.value}{src.equal_class.value}|e{int(easy)}")
    seen, out = set(), []
    for x in viol:
        key = (x["invariant"], json.dumps(x.get("tags", {}), sort_keys=True))
        if key not in seen:
            seen.add(key)
            out.append(x)
    return {
        "violations": out, "trace": trace,
        "stats": {"ops": len(scn["ops"]), "draws": n_draws, "forced": n_forced, "faults": faults, "probes": probes},
        "signature": hashlib.sha1("\n".join(sig).encode()).hexdigest(), "nontrivial": True, "states": sorted(states),
    }


# --------------------------------------------------------------------------
# minimisation


def shrink(scn):
    ops = scn["ops"]
    for cand in SH.drop_chunks(ops, min_len=1):
        yield SH.with_path(scn, ["ops"], cand)
    for i, op in enumerate(ops):
        if op["op"] != "band":
            continue
        for cand in SH.drop_chunks(op.get("faults") or []):
            yield SH.with_path(scn, ["ops", i, "faults"], cand)
        for nb in SH.shrink_int(op["cfg"]["nb_samples"], lo=1):
            yield SH.with_path(scn, ["ops", i, "cfg", "nb_samples"], nb)
        for k in ("fnr", "fpr", "thresholds", "nb_points", "x_axis"):
            if k in op["args"]:
                c = copy.deepcopy(scn)
                del c["ops"][i]["args"][k]
                yield c
        for k in ("fnr", "fpr", "thresholds"):
            if k in op["args"] and len(op["args"][k]) > 1:
                for cand in SH.drop_chunks(op["args"][k], min_len=1):
                    yield SH.with_path(scn, ["ops", i, "args", k], cand)
        if op["cfg"]["bootstrap_method"] != "quantile":
            yield SH.with_path(scn, ["ops", i, "cfg", "bootstrap_method"], "quantile")
        if op["sampler"].get("callable") != "identity":
            yield SH.with_path(scn, ["ops", i, "sampler"], {"callable": "identity"})
    o = scn["object"]
    for key in ("pos", "neg"):
        for cand in SH.drop_chunks(o[key], min_len=1):
            yield SH.with_path(scn, ["object", key], cand)
    for key in ("nb_easy_pos", "nb_easy_neg"):
        for c_ in SH.shrink_int(o.get(key, 0)):
            yield SH.with_path(scn, ["object", key], c_)
    for key in ("score_class", "equal_class"):
        if o.get(key) != "pos":
            yield SH.with_path(scn, ["object", key], "pos")
    if o.get("presorted"):
        yield SH.with_path(scn, ["object", "presorted"], False)
    if o.get("dtype", "float64") == "float64":
        for key in ("pos", "neg"):
            for cand in SH.simplify_numbers(o[key]):
                yield SH.with_path(scn, ["object", key], cand)


def sample_view(scn, res):
    return {"scenario": scn, "signature": res.get("signature"), "violations": [v["invariant"] for v in res["violations"]]}
