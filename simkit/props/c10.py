"""C10 - queries are vectorised elementwise, shape-preserving and side-effect free.

System: real Scores / GroupScores / ConfusionMatrix / pointwise_cm / roc.
Workload: histories of deterministic queries by 1-3 logical clients on a shared pool of
objects and a shared side pool of caller arrays, interleaved with random "noise"
operations (bootstrap_*), reseeds and swaps (which alias arrays between pool members).
Faults: line-event interrupts inside any operation, re-entrant / failing callbacks,
forced draw outcomes and interference in the noise operations.
Oracle: fingerprints of every object and caller array after every step; bit-identity
with the same query on a pristine twin rebuilt from the scenario; shape, scalar,
elementwise and alias laws on every call.
"""

import copy
import hashlib
import json

import numpy as np

from .. import model as M
from .. import shrink as SH
from .. import boot
from ..boot import lib, lib2
from ..ops import run_op
from . import c11, c12

ID = "C10"
TIERS = {
    "quick": {"runs": 9000, "selftest": 16, "budget_s": 240, "chunk": 100},
    "thorough": {"runs": 150000, "selftest": 64, "budget_s": 1500, "chunk": 250},
}
# "repeating a deterministic query returns identical results" is part of C10's statement: a scenario whose results differ
# between executions (uninitialised memory, dependence on allocator or hash state) is a violation, not a harness problem
NONDETERMINISM_IS_VIOLATION = True

RULE = (
    "run i is generated from SHA-256(VERIF_SEED:C10:i): a pool of 1-3 objects (Scores with float/int scores, ties, empty classes, "
    "easy counts, 4 flag pairs, pre-sorted/read-only caller arrays, swap-aliased views; GroupScores; binary, multiclass and stacked "
    "ConfusionMatrix), a side pool of 2-6 caller arrays of shapes (), (k,), (0,), (a,b), (a,0,b), (a,b,c) incl. read-only ones, and "
    "5-40 operations by 1-3 clients from the catalogue of deterministic public methods (cm, 12 rates/aliases, 12 threshold_at_* x 3 "
    "methods, threshold_at_metric, eer, auc, swap, properties, pointwise_cm, roc, every ConfusionMatrix metric incl. *_ci/as_dict, "
    "one_vs_all, indexing, 12 group_* metrics, group indexing, groupwise) interleaved with noise operations (bootstrap_sample/metric/ci), "
    "reseeds, and 0-4 planned faults. Non-trivial: >= 2 operations or >= 1 fault fired; distinct = distinct abstract trace signatures."
     " Later rounds added: argument containers and layouts (list/tuple/strided/negative-stride/Series/Fortran/transposed/big-endian), NumPy scalar kinds, "
    "call styles, copy/pickle steps, user subclasses and configurations, extreme magnitudes and mixed dtypes, sources of 33k-70k scores, one bounded very large pointwise_cm call, threshold arrays of 4096-7000 elements on the score grid with 33 elements compared to scalar calls."
)
COMPONENTS = {
    "real": ["score_analysis.scores / group_scores / cm / metrics / roc_curve (from /repo working tree)", "numpy global RandomState (noise operations)"],
    "stub": ["SimInterrupt/MemoryError at planned line events", "callable metrics (re-entrant / failing)", "forced draw outcomes", "interference"],
}
ASSUMPTIONS = [
    "a pristine twin rebuilt from the scenario is the reference for every deterministic query: same code, so agreement means history- and RNG-independence, not functional correctness (that is C01-C09, not claimed)",
    "for a 0-d array argument either a scalar or a 0-d array result is accepted; Python and NumPy scalars count as plain scalars",
]
PROBES = ["huge_argument", "copy_roundtrip", "caller_mutates_own_array", "caller_scribbles_result", "interrupt_fired", "reentrant_callback", "callback_raise", "swap_alias", "readonly_input", "zero_size_axis", "three_d_argument",
          "scalar_argument", "noise_op", "pointwise_big", "pointwise_cells_checked", "elementwise_checked", "alias_checked", "cm_multiclass", "cm_stacked", "group_object",
          "empty_class", "int_scores", "twin_checked", "exception_agreed"]

RATES = ["tpr", "fnr", "tnr", "fpr", "topr", "tonr"]
RATE_ALIAS = {"tar": "tpr", "frr": "fnr", "trr": "tnr", "far": "fpr", "acceptance_rate": "topr", "rejection_rate": "tonr"}
THR = ["threshold_at_tpr", "threshold_at_fnr", "threshold_at_tnr", "threshold_at_fpr", "threshold_at_topr", "threshold_at_tonr"]
THR_ALIAS = {"threshold_at_tar": "threshold_at_tpr", "threshold_at_frr": "threshold_at_fnr", "threshold_at_trr": "threshold_at_tnr",
             "threshold_at_far": "threshold_at_fpr", "threshold_at_acceptance_rate": "threshold_at_topr",
             "threshold_at_rejection_rate": "threshold_at_tonr"}
PROPS = ["hard_pos_ratio", "hard_neg_ratio", "easy_pos_ratio", "easy_neg_ratio", "nb_easy_samples", "nb_hard_pos", "nb_hard_neg",
         "nb_hard_samples", "nb_all_pos", "nb_all_neg", "nb_all_samples", "easy_ratio", "hard_ratio"]
CM_PLAIN = ["pop", "accuracy", "error_rate"]
CM_CLASS = ["tp", "tn", "fp", "fn", "p", "n", "top", "ton", "tpr", "tnr", "fpr", "fnr", "topr", "tonr", "ppv", "npv", "fdr", "for_",
            "class_accuracy", "class_error_rate"]
CM_ALIAS = {"tar": "tpr", "frr": "fnr", "trr": "tnr", "far": "fpr", "acceptance_rate": "topr", "rejection_rate": "tonr"}
CM_CI = ["tpr_ci", "tnr_ci", "fpr_ci", "fnr_ci"]
CM_CI_ALIAS = {"tar_ci": "tpr_ci", "frr_ci": "fnr_ci", "trr_ci": "tnr_ci", "far_ci": "fpr_ci"}
SHAPES = [[], [], [1], [3], [5], [0], [2, 2], [2, 3], [2, 0, 3], [2, 1, 2], [1, 1, 1],
          [130], [16, 16], [4, 5, 8], [257]]  # large enough to take any size-dependent fast path


# --------------------------------------------------------------------------
# generation


def gen_array(rnd, kind):
    shape = rnd.choice(SHAPES)
    if kind == "thr" and rnd.random() < 0.012:
        # thousands of thresholds on the score grid (many exact ties) against a handful of scores: the regime in which a
        # "sort the needles / locate the scores among the thresholds instead" fast path would be taken
        shape = rnd.choice([[rnd.randint(4096, 7000)], [70, 64], [17, 16, 16]])
    n = int(np.prod(shape)) if shape else 1
    if kind == "thr":
        data = [rnd.choice([round(rnd.uniform(-7, 7), 1), float(rnd.randint(-6, 6))]) for _ in range(n)]
    else:
        data = [rnd.choice([0.0, 1.0, 0.5, round(rnd.uniform(0, 1), 3), round(rnd.uniform(-0.2, 1.2), 2)]) for _ in range(n)]
    if kind == "thr" and n and rnd.random() < 0.08:
        data[rnd.randrange(n)] = rnd.choice([float("inf"), float("-inf")])  # thresholds beyond every score
    if kind == "thr" and n and rnd.random() < 0.06:
        data[rnd.randrange(n)] = -0.0  # the other zero
    if kind == "rate" and n and rnd.random() < 0.06:
        data[rnd.randrange(n)] = float("nan")  # a missing target: the answer for it is NaN, for the others unchanged
    a = {"shape": shape, "data": data, "kind": kind, "readonly": rnd.random() < 0.25,
         "scalar_as": rnd.choice(["py", "np", "0d", "int", "np32", "np16", "npint"]) if not shape else None}
    if a["scalar_as"] in ("int", "npint"):
        a["data"] = [float(round(data[0])) if data[0] == data[0] and abs(data[0]) != float("inf") else 0.0]
    if shape and rnd.random() < 0.12:
        a["as"] = rnd.choice(["list", "list", "tuple"])  # the caller passes a (nested) Python list / tuple
    elif shape and rnd.random() < 0.05:
        a["as"] = "bigendian"  # read from a big-endian file: same values, non-native byte order
    elif len(shape) >= 2 and rnd.random() < 0.2:
        a["as"] = rnd.choice(["fortran", "transposed"])  # multi-dimensional, not C-contiguous
    elif len(shape) == 1 and rnd.random() < 0.1:
        a["as"] = rnd.choice(["strided", "negstride", "series"])  # non-contiguous / negative-stride view, pandas Series
    elif shape and kind == "thr" and rnd.random() < 0.1:
        a["as"] = "int"  # integer-dtype thresholds
        a["data"] = [float(round(v)) if abs(v) != float("inf") else 0.0 for v in data]
    return a


def gen_cm(rnd):
    if rnd.random() < 0.5:
        N, binary = 2, True
    else:
        N, binary = rnd.randint(2, 4), False
    X = rnd.choice([[], [], [3], [2, 2], [0], [2, 1], [1], [1, 1, 2]])
    n = int(np.prod(X + [N, N])) if X + [N, N] else 1
    data = [rnd.choice([0, 0, 1, 2, 5, rnd.randint(0, 40)]) for _ in range(n)]
    if rnd.random() < 0.2:
        # built from labels / predictions (and weights): other constructor path, other caller arrays
        n = rnd.randint(0, 30)
        classes = [1, 0] if binary else list(range(N))
        return {"kind": "cm", "binary": binary, "N": N, "X": [], "data": [], "from_labels": True,
                "labels": [rnd.choice(classes) for _ in range(n)], "predictions": [rnd.choice(classes) for _ in range(n)],
                "weights": [rnd.choice([1.0, 0.5, 2.0]) for _ in range(n)] if rnd.random() < 0.4 else None,
                "given_classes": classes if (binary or rnd.random() < 0.7) else None}
    spec = {"kind": "cm", "binary": binary, "N": N, "X": X, "data": data, "float": rnd.random() < 0.3}
    if spec["float"] and rnd.random() < 0.5:
        spec["data"] = [v + rnd.choice([0.0, 0.5, 0.25]) for v in data]  # weighted counts
    if not binary and rnd.random() < 0.4:
        spec["classes"] = rnd.sample(["a", "b", "c", "d", "e"], N)
    return spec


def generate(rnd, tier):
    n_obj = rnd.choice([1, 1, 2, 2, 3])
    objects = []
    for _ in range(n_obj):
        r = rnd.random()
        prev = [o for o in objects if o["kind"] == "scores" and len(o["pos"]) > 1 and len(o["neg"]) > 1 and not o.get("synth")]
        if prev and rnd.random() < 0.45:
            # a near-clone of an earlier object: same sizes and extremes, different interior / flags / easy
            # counts - the inputs on which a cache or memo keyed on part of the state returns stale results
            o = copy.deepcopy(rnd.choice(prev))
            what = rnd.choice(["interior", "interior", "flags", "easy", "last"])
            for key in ("pos", "neg"):
                vals = o[key]
                lo, hi = min(vals), max(vals)
                if what == "interior" and hi > lo:
                    j = rnd.randrange(len(vals))
                    if vals[j] != lo or vals.count(lo) > 1:
                        vals[j] = type(vals[j])(lo + (hi - lo) * rnd.choice([0.25, 0.5, 0.75])) if o.get("dtype") != "int64" else int(rnd.randint(int(lo), int(hi)))
                elif what == "last":
                    j = vals.index(hi)
                    vals[j] = hi + (1 if o.get("dtype") == "int64" else 0.5)
            if what == "flags":
                o[rnd.choice(["score_class", "equal_class"])] = rnd.choice(["pos", "neg"])
            if what == "easy":
                o["nb_easy_pos"] = rnd.randint(0, 5)
                o["nb_easy_neg"] = rnd.randint(0, 5)
            o["swaps"] = 0
            objects.append(o)
            continue
        if r < 0.55:
            o = c11.gen_source(rnd, rnd.choice(["tiny", "small", "small"]) if rnd.random() < 0.96 else rnd.choice(["huge", "huge", "huge", "giant"]), rnd.random() < 0.3)
            o["kind"] = "scores"
            o["readonly"] = rnd.random() < 0.2
            o["swaps"] = rnd.choice([0, 0, 0, 1, 2])
        elif r < 0.75:
            o = c12.gen_gs(rnd, False)
            o["kind"] = "group"
        else:
            o = gen_cm(rnd)
        objects.append(o)
    arrays = [gen_array(rnd, "thr") for _ in range(rnd.randint(1, 3))] + [gen_array(rnd, "rate") for _ in range(rnd.randint(1, 3))]
    pts = sorted({round(rnd.uniform(-7, 7), 2) for _ in range(rnd.randint(3, 12))})
    arrays.append({"shape": [len(pts)], "data": pts, "kind": "points", "readonly": rnd.random() < 0.4, "scalar_as": None})
    points_idx = len(arrays) - 1
    thr_idx = [i for i, a in enumerate(arrays) if a["kind"] == "thr"]
    rate_idx = [i for i, a in enumerate(arrays) if a["kind"] == "rate"]
    n_clients = rnd.randint(1, 3)
    fault_free = rnd.random() < 0.34
    ops = []
    pool_kinds = [o["kind"] for o in objects]
    for _ in range(rnd.randint(5, 40)):
        oi = rnd.randrange(len(pool_kinds))
        kind = pool_kinds[oi]
        op = {"client": rnd.randrange(n_clients), "obj": oi}
        r = rnd.random()
        if r < 0.03:
            op = {"client": op["client"], "op": "reseed", "seed": rnd.randrange(2**31)}
        elif r < 0.05:
            op.update({"op": "copy_roundtrip", "how": rnd.choice(["copy", "deepcopy", "pickle"])})
        elif kind in ("scores", "group") and r < 0.12:
            op.update({"op": "noise", "what": rnd.choice(["sample", "sample", "metric", "ci"]),
                       "cfg": {"sampling_method": rnd.choice(["replacement", "single_pass", "dynamic"]),
                               "stratified_sampling": rnd.choice([None, "by_label"]), "nb_samples": rnd.randint(1, 6),
                               "bootstrap_method": rnd.choice(["quantile", "bc", "bca"])},
                       "x": rnd.choice(thr_idx)})
        elif kind == "scores":
            k = rnd.random()
            if k < 0.14:
                op.update({"op": "cm", "x": rnd.choice(thr_idx)})
            elif k < 0.38:
                op.update({"op": "rate", "name": rnd.choice(RATES + list(RATE_ALIAS)), "x": rnd.choice(thr_idx)})
            elif k < 0.62:
                op.update({"op": "thr_at", "name": rnd.choice(THR + list(THR_ALIAS)), "x": rnd.choice(rate_idx),
                           "method": rnd.choice(["linear", "lower", "higher"]) if rnd.random() < 0.97 else "nearest"})
            elif k < 0.70:
                op.update({"op": "thr_at_metric", "x": rnd.choice(rate_idx), "metric": rnd.choice(["fnr", "fpr", "tpr", "callable", "callable"]),
                           "points": rnd.choice([None, None, 5, 17, "array", "array"]), "points_x": points_idx,
                           "cb": rnd.choice([None, None, "reenter", "raise"])})
            elif k < 0.75:
                op.update({"op": "eer"})
            elif k < 0.82:
                lo = round(rnd.uniform(0, 0.6), 2)
                op.update({"op": "auc", "lower": lo, "upper": round(rnd.uniform(lo, 1.0), 2),
                           "x_axis": rnd.choice(["fpr", "fnr", "tpr", "tnr"]), "y_axis": rnd.choice(["tpr", "fnr", "tnr", "fpr"])})
                if rnd.random() < 0.4:
                    # any rate, under any of its names, can be an axis
                    op["x_axis"] = rnd.choice(RATES + list(RATE_ALIAS))
                    op["y_axis"] = rnd.choice(RATES + list(RATE_ALIAS))
            elif k < 0.87:
                op.update({"op": "swap"})
                pool_kinds.append("scores")
            elif k < 0.91:
                op.update({"op": "props"})
            elif k < 0.95:
                op.update({"op": "pointwise_cm", "x": rnd.choice(thr_idx), "sshape": rnd.choice(["flat", "2d", "2d_f", "labels_col", "labels_row"])})
            else:
                op.update({"op": "roc", "nb_points": rnd.choice([None, 5, 10]), "x_axis": rnd.choice(["fpr", "fnr", "tar"]),
                           "fnr": rnd.random() < 0.3, "x": rnd.choice(rate_idx)})
        elif kind == "group":
            k = rnd.random()
            if k < 0.35:
                op.update({"op": "group_rate", "name": rnd.choice(c12.GROUP_METRICS), "x": rnd.choice(thr_idx)})
            elif k < 0.5:
                op.update({"op": "group_cm", "x": rnd.choice(thr_idx)})
            elif k < 0.65:
                op.update({"op": "group_getitem", "which": rnd.randrange(8)})
            elif k < 0.75:
                op.update({"op": "rate", "name": rnd.choice(RATES), "x": rnd.choice(thr_idx)})
            elif k < 0.85:
                op.update({"op": "cm", "x": rnd.choice(thr_idx)})
            elif k < 0.93:
                op.update({"op": "groupwise", "metric": rnd.choice(["fnr", "fpr", "tpr"]), "x": rnd.choice(thr_idx)})
            else:
                op.update({"op": "swap"})
                pool_kinds.append("group")
        else:
            k = rnd.random()
            o = objects[oi] if oi < len(objects) else None
            if k < 0.2:
                op.update({"op": "cm_metric", "name": rnd.choice(CM_PLAIN)})
            elif k < 0.6:
                op.update({"op": "cm_metric", "name": rnd.choice(CM_CLASS + list(CM_ALIAS)), "as_dict": rnd.random() < 0.3})
            elif k < 0.8:
                op.update({"op": "cm_ci", "name": rnd.choice(CM_CI + list(CM_CI_ALIAS)), "alpha": rnd.choice([0.05, 0.1, round(rnd.uniform(0.01, 0.5), 2)]),
                           "as_dict": rnd.random() < 0.2})
            elif k < 0.9:
                op.update({"op": "one_vs_all"})
            else:
                op.update({"op": "cm_getitem", "which": rnd.randrange(16)})
        if not fault_free and op["op"] not in ("reseed", "swap") and rnd.random() < 0.15:
            if op["op"] == "noise" and rnd.random() < 0.6:
                f = {"kind": rnd.choice(c11.DRAW_FAULTS[:13] + ["interference"]), "k": 2}
                if rnd.random() < 0.5:
                    f["at"] = rnd.randint(0, 10)
                else:
                    f["every"] = rnd.choice([1, 2, 3])
                    f["offset"] = rnd.randint(0, 3)
                op["faults"] = [f]
            else:
                op["faults"] = [{"kind": "interrupt", "frac": round(rnd.random(), 3), "exc": rnd.choice(["SimInterrupt", "SimInterrupt", "MemoryError"])}]
        if op["op"] in ("cm", "rate", "thr_at", "thr_at_metric", "group_rate", "group_cm"):
            op["idx"] = [rnd.randrange(1000) for _ in range(rnd.randint(1, 3))]
        if op["op"] in ("cm", "rate", "thr_at") and kind in ("scores", "group"):
            op["call"] = rnd.choice(["inst_pos", "inst_pos", "inst_kw", "class_pos"])
        ops.append(op)
        if op["op"] in ("cm", "rate", "thr_at", "group_rate", "group_cm") and rnd.random() < 0.15:
            # the caller reuses its buffer (writes new values into the same array) or writes into the result it
            # was handed, and then asks the same question again
            if "x" in op and rnd.random() < 0.6:
                ops.append({"client": op["client"], "op": "mutate_arg", "x": op["x"], "delta": rnd.choice([0.5, -1.0, 2.0, 0.1]), "rev": rnd.random() < 0.3})
            else:
                ops.append({"client": op["client"], "op": "scribble_result"})
            again = copy.deepcopy(op)
            again.pop("faults", None)
            ops.append(again)
    for oi_, o_ in enumerate(objects):
        if o_.get("kind") == "scores" and o_.get("dtype") in ("float32", "float16") and o_.get("pos") and rnd.random() < 0.7:
            # a plain Python number as threshold next to single-precision scores, at the decimal value one of the scores was
            # rounded from: the comparison is the one of the float64 value, as for the same number inside a list or array
            v_ = round(float(rnd.choice(o_["pos"] + o_["neg"])), 1)
            arrays.append({"shape": [], "data": [v_], "kind": "thr", "readonly": False, "scalar_as": "py"})
            arrays.append({"shape": [1], "data": [v_], "kind": "thr", "readonly": False, "scalar_as": None, "as": "list"})
            for xi_ in (len(arrays) - 2, len(arrays) - 1):
                ops.insert(rnd.randrange(len(ops) + 1), {"client": 0, "obj": oi_, "op": "pointwise_cm", "x": xi_, "sshape": "flat", "idx": [0]})
                ops.insert(rnd.randrange(len(ops) + 1), {"client": 0, "obj": oi_, "op": "cm", "x": xi_, "idx": [0]})
    if rnd.random() < 0.006:
        # one very large per-sample matrix (millions of (score, threshold) pairs): blocked / chunked code paths
        ops.insert(rnd.randrange(len(ops) + 1), {"client": 0, "op": "pointwise_big", "n": rnd.randint(2500, 6000), "m": rnd.randint(600, 1400),
                                                 "seed": rnd.randrange(2**31), "score_class": rnd.choice(["pos", "neg"]), "equal_class": rnd.choice(["pos", "neg"])})
    return {"np_seed": rnd.randrange(2**31), "objects": objects, "arrays": arrays, "ops": ops}


# --------------------------------------------------------------------------
# building


def build_cm(spec, L=None):
    L = L or lib()
    if spec.get("from_labels"):
        labels = np.asarray(spec["labels"], dtype=np.int64)
        preds = np.asarray(spec["predictions"], dtype=np.int64)
        d = {"labels": labels, "predictions": preds}
        kw = {}
        if spec.get("weights") is not None:
            d["weights"] = kw["weights"] = np.asarray(spec["weights"], dtype=float)
        classes = spec.get("given_classes")
        if classes is None:
            # classes are inferred: need at least two distinct values to be a valid matrix
            if len(set(spec["labels"]) | set(spec["predictions"])) < 2:
                classes = list(range(spec["N"]))
        callers = M._callers(d)
        o = L.ConfusionMatrix(labels, preds, classes=classes, binary=bool(spec["binary"]), **kw)
        return o, callers
    N, X = spec["N"], spec["X"]
    m = np.asarray(spec["data"], dtype=float if spec.get("float") else np.int64).reshape(X + [N, N])
    kw = {}
    if spec.get("classes"):
        kw["classes"] = list(spec["classes"])
    callers = M._callers({"matrix": m})
    return L.ConfusionMatrix(matrix=m, binary=bool(spec["binary"]), **kw), callers


def build_object(spec, L=None):
    if spec["kind"] == "scores":
        return M.build_scores(spec, L)
    if spec["kind"] == "group":
        return M.build_group_scores(spec, L)
    return build_cm(spec, L)


def build_arg(a):
    if not a["shape"]:
        v = float(a["data"][0])
        if a.get("scalar_as") == "np":
            return np.float64(v)
        if a.get("scalar_as") == "int":
            return int(v)
        if a.get("scalar_as") in ("np32", "np16") and v == v:
            return (np.float32 if a["scalar_as"] == "np32" else np.float16)(v)  # NumPy scalars that are not Python floats
        if a.get("scalar_as") == "npint":
            return np.int64(int(v))
        if a.get("scalar_as") == "0d":
            arr = np.asarray(v)
            if a.get("readonly"):
                arr.flags.writeable = False
            return arr
        return v
    arr = np.asarray(a["data"], dtype=float).reshape(a["shape"])
    if a.get("as") == "list":
        return arr.tolist()
    if a.get("as") == "tuple":
        def tup(x):
            return tuple(tup(v) for v in x) if isinstance(x, list) else x
        return tup(arr.tolist())
    if a.get("as") == "int":
        arr = arr.astype(np.int64)
    if a.get("as") == "bigendian":
        arr = arr.astype(arr.dtype.newbyteorder(">"))
    if a.get("readonly"):
        arr.flags.writeable = False
    if a.get("as") in ("strided", "negstride", "series"):
        return M.wrap_container(arr, a["as"], [])
    if a.get("as") in ("fortran", "transposed") and arr.ndim >= 2:
        # same values and shape, another memory layout: Fortran order / a transposed view of the transposed data
        ro = not arr.flags.writeable
        arr = np.asfortranarray(arr) if a["as"] == "fortran" else np.ascontiguousarray(arr.T).T
        if ro:
            arr.flags.writeable = False
    return arr


def is_plain_scalar(x):
    return isinstance(x, (float, int, np.generic)) and not isinstance(x, np.ndarray)


# --------------------------------------------------------------------------
# the catalogue: one function evaluates an op on an object (real or twin)


class CallbackFault(Exception):
    pass


def evaluate(o, op, args, state, L=None):
    """Performs op on o.  `state` collects callback activity.  L is the package copy o belongs to."""
    L = L or lib()
    k = op["op"]
    x = args.get(op.get("x")) if "x" in op else None
    style = op.get("call", "inst_pos")
    if k == "cm":
        return type(o).cm(o, x) if style == "class_pos" else o.cm(threshold=x) if style == "inst_kw" else o.cm(x)
    if k == "rate":
        if style == "class_pos":
            return getattr(type(o), op["name"])(o, x)
        if style == "inst_kw":
            return getattr(o, op["name"])(threshold=x)
        return getattr(o, op["name"])(x)
    if k == "thr_at":
        if style == "class_pos":
            return getattr(type(o), op["name"])(o, x, method=op["method"])
        if style == "inst_kw":
            # the first parameter is named after the metric: threshold_at_tpr(tpr=...), threshold_at_far(far=...)
            return getattr(o, op["name"])(**{op["name"][len("threshold_at_"):]: x}, method=op["method"])
        return getattr(o, op["name"])(x, method=op["method"])
    if k == "thr_at_metric":
        metric = op["metric"]
        if metric == "callable":
            cb = op.get("cb")

            def metric(s, t):
                state["calls"] = state.get("calls", 0) + 1
                if cb == "raise":
                    state["cb_raise"] = True
                    raise CallbackFault("planned failure of the metric callback")
                if cb == "reenter":
                    state["reentered"] = True
                    s.cm(np.array([0.0]))
                    s.swap()
                    if len(s.pos) and len(s.neg):
                        s.bootstrap_sample(L.BootstrapConfig(sampling_method="replacement"))
                return s.fnr(t) + 2.0 * s.fpr(t)
        pts = op.get("points")
        if pts == "array":
            pts = args.get(op.get("points_x"))  # a caller array from the side pool (increasing, maybe read-only)
            if not isinstance(pts, np.ndarray) or pts.ndim != 1 or pts.size < 2:
                pts = np.linspace(-6.0, 6.0, 9)
        return o.threshold_at_metric(x, metric, points=pts)
    if k == "eer":
        return o.eer()
    if k == "auc":
        return o.auc(op["lower"], op["upper"], x_axis=op["x_axis"], y_axis=op["y_axis"])
    if k == "props":
        return tuple(getattr(o, p) for p in PROPS)
    if k == "pointwise_cm":
        labels = np.concatenate([np.ones(len(o.pos), dtype=int), np.zeros(len(o.neg), dtype=int)])
        scores = np.concatenate([o.pos, o.neg])
        if op.get("sshape") == "2d" and len(scores) % 2 == 0 and len(scores) > 0:
            labels, scores = labels.reshape(2, -1), scores.reshape(2, -1)
        elif op.get("sshape") == "2d_f" and len(scores) % 2 == 0 and len(scores) > 0:
            labels, scores = np.asfortranarray(labels.reshape(2, -1)), np.asfortranarray(scores.reshape(2, -1))  # not C-contiguous
        elif op.get("sshape") == "labels_col" and len(scores) > 0:
            labels = labels.reshape(-1, 1)  # e.g. df[["label"]].values next to a flat score column
        elif op.get("sshape") == "labels_row" and len(scores) > 0:
            labels = labels.reshape(1, -1)
        state["pw_inputs"] = (labels, scores, M.fingerprint(labels), M.fingerprint(scores))
        return L.pointwise_cm(labels, scores, x, score_class=o.score_class, equal_class=o.equal_class)
    if k == "roc":
        kw = {"nb_points": op["nb_points"], "x_axis": op["x_axis"]}
        if op.get("fnr") and isinstance(x, np.ndarray) and x.ndim == 1 and x.size:
            kw["fnr"] = np.clip(x, 0, 1)
        return L.roc(o, **kw)
    if k == "group_rate":
        return getattr(o, op["name"])(x)
    if k == "group_cm":
        return o.group_cm(x)
    if k == "group_getitem":
        g = o.groups[op["which"] % len(o.groups)]
        return o[g]
    if k == "groupwise":
        return L.groupwise(op["metric"])(o, threshold=x)
    if k == "cm_metric":
        kw = {"as_dict": True} if op.get("as_dict") else {}
        return getattr(o, op["name"])(**kw)
    if k == "cm_ci":
        kw = {"as_dict": True} if op.get("as_dict") else {}
        return getattr(o, op["name"])(alpha=op["alpha"], **kw)
    if k == "one_vs_all":
        return o.one_vs_all()
    if k == "cm_getitem":
        X = o.matrix.shape[:-2]
        if not X or 0 in X:
            return o[...]
        flat = op["which"] % int(np.prod(X))
        return o[np.unravel_index(flat, X)]
    raise KeyError(k)


# --------------------------------------------------------------------------
# laws


def shape_law(o, op, x, r, L):
    """Returns an error string or None."""
    k = op["op"]
    X = np.shape(x) if x is not None else None
    scalar_in = x is not None and not isinstance(x, (np.ndarray, list, tuple)) and not hasattr(x, "__len__")
    if k == "cm":
        if not isinstance(r, L.ConfusionMatrix) or r.matrix.shape != X + (2, 2) or not r.binary:
            return f"cm(shape {X}) returned matrix of shape {getattr(getattr(r, 'matrix', None), 'shape', None)}"
    elif k in ("rate", "thr_at"):
        if scalar_in:
            if not is_plain_scalar(r):
                return f"{op['name']}(scalar) returned {type(r).__name__} of shape {np.shape(r)}, expected a plain scalar"
        elif np.shape(r) != X:
            return f"{op['name']}(shape {X}) returned shape {np.shape(r)}"
        elif X != () and not isinstance(r, np.ndarray):
            return f"{op['name']}(shape {X}) returned {type(r).__name__}"
    elif k == "thr_at_metric":
        # (the shape of the individual solution arrays is C17's business: when no exact solution exists
        # the library returns a (1, 1) array - observed, not claimed here)
        if X == ():
            if not isinstance(r, np.ndarray):
                return f"threshold_at_metric(scalar target) returned {type(r).__name__}, expected a bare array"
        elif len(X) == 1:
            if not isinstance(r, list) or len(r) != X[0] or not all(isinstance(v, np.ndarray) for v in r):
                return f"threshold_at_metric(target of shape {X}) did not return a list of {X[0]} arrays"
    elif k == "pointwise_cm":
        pass  # checked by the caller (needs the scores' shape)
    elif k == "group_rate":
        G = len(o.groups)
        if np.shape(r) != (G,) + X:
            return f"{op['name']}(shape {X}) returned shape {np.shape(r)}, expected {(G,) + X}"
    elif k == "group_cm":
        G = len(o.groups)
        if not isinstance(r, L.ConfusionMatrix) or r.matrix.shape != (G,) + X + (2, 2):
            return f"group_cm(shape {X}) returned matrix shape {getattr(getattr(r, 'matrix', None), 'shape', None)}"
    elif k in ("cm_metric", "cm_ci"):
        Xm = o.matrix.shape[:-2]
        N = o.matrix.shape[-1]
        name = op["name"]
        if op.get("as_dict"):
            if not isinstance(r, dict) or list(r.keys()) != list(np.asarray(o.classes).tolist()):
                return f"{name}(as_dict=True) keys {list(r) if isinstance(r, dict) else type(r).__name__} != classes {list(o.classes)}"
            return None
        if name in CM_PLAIN:
            exp = Xm
        elif k == "cm_ci":
            exp = Xm + ((2,) if o.binary else (N, 2))
        else:
            exp = Xm if o.binary else Xm + (N,)
        if np.shape(r) != exp:
            return f"{name}() on matrix {o.matrix.shape} (binary={o.binary}) returned shape {np.shape(r)}, expected {exp}"
        rate_like = {"accuracy", "error_rate", "tpr", "tnr", "fpr", "fnr", "topr", "tonr", "ppv", "npv", "fdr", "for_",
                     "class_accuracy", "class_error_rate"} | set(CM_ALIAS)
        if exp == () and name in rate_like and not is_plain_scalar(r):
            return f"{name}() on a single matrix returned {type(r).__name__}, expected a plain scalar"
    elif k == "one_vs_all":
        Xm = o.matrix.shape[:-2]
        N = o.matrix.shape[-1]
        if not isinstance(r, L.ConfusionMatrix) or r.matrix.shape != Xm + (N, 2, 2) or not r.binary:
            return f"one_vs_all on {o.matrix.shape} returned {getattr(getattr(r, 'matrix', None), 'shape', None)}"
    return None


def _works_with_writable_copies(twin, op, args, L2):
    copies = {i: (np.array(v, copy=True) if isinstance(v, np.ndarray) else v) for i, v in args.items()}
    try:
        evaluate(twin, op, copies, {}, L2)
        return True
    except Exception:  # noqa: BLE001
        return False


def scalarise(v):
    return v.item() if isinstance(v, np.ndarray) and v.ndim == 0 else v


# --------------------------------------------------------------------------
# execution


def execute(scn, ctx):
    L = lib()
    seam = ctx.seam
    seam.seed(scn["np_seed"])
    pool, specs, callers, cfps = [], [], [], []
    early = []
    for spec in scn["objects"]:
        try:
            o, c = build_object(spec)
        except Exception as e:  # noqa: BLE001 - e.g. a constructor that writes to a read-only caller array
            early.append({"invariant": "C10.construction", "tags": {"kind": spec["kind"]},
                          "detail": f"constructing a {spec['kind']} object from valid{' read-only' if spec.get('readonly') else ''} arrays raised {type(e).__name__}: {e}"})
            continue
        pool.append(o)
        specs.append((spec, 0))
        callers.append(c)
        cfps.append(c.fp0)  # fingerprint taken before the constructor saw the arrays
    if not pool:
        return {"violations": early, "trace": [["construction-failed"]], "stats": {"ops": 0, "faults": {}, "probes": {}},
                "signature": "construction-failed", "nontrivial": False, "states": []}
    args = {i: build_arg(a) for i, a in enumerate(scn["arrays"])}
    def _afp(v):
        if isinstance(v, np.ndarray):
            return M.fingerprint(v)
        if hasattr(v, "index") and hasattr(v, "to_numpy"):
            return M.fingerprint([v.to_numpy(), np.asarray(v.index)])
        return repr(v)

    arg_fp = {i: _afp(v) for i, v in args.items()}
    viol, trace, sig = list(early), [], []
    probes, faults = {}, {}
    n_draws = n_forced = n_lines = 0
    states = set()

    def probe(name, k=1):
        probes[name] = probes.get(name, 0) + k

    for spec in scn["objects"]:
        if spec["kind"] == "cm":
            probe("cm_stacked" if spec["X"] else "cm_multiclass" if not spec["binary"] else "twin_checked", 1 if spec["X"] or not spec["binary"] else 0)
        if spec["kind"] == "group":
            probe("group_object")
        if spec["kind"] == "scores":
            if (not spec["pos"] or not spec["neg"]) and not spec.get("synth"):
                probe("empty_class")
            if spec.get("synth"):
                probe("giant_source")
            if spec.get("dtype") == "int64":
                probe("int_scores")
            if spec.get("readonly"):
                probe("readonly_input")
    for a in scn["arrays"]:
        if a.get("readonly"):
            probe("readonly_input")
        if 0 in a["shape"]:
            probe("zero_size_axis")
        if len(a["shape"]) == 3:
            probe("three_d_argument")
        if not a["shape"]:
            probe("scalar_argument")

    L2 = lib2()

    def twin_of(i):
        """A pristine twin: rebuilt from the scenario with the *second* package copy, whose module- and
        class-level state is reset first, so that it shares neither object nor hidden library state with
        the object under test."""
        boot.reset_state(boot.TWIN_ALIAS)
        spec, swaps = specs[i]
        t, _ = build_object(spec, L2)
        for _ in range(swaps):
            t = t.swap()
        return t

    held = []  # (step, description, value, canon at return time): results handed to the caller earlier
    import warnings as _warnings

    env0 = (dict(np.geterr()), len(_warnings.filters), np.get_printoptions()["precision"])

    def check_everything_unchanged(where, tags):
        env1 = (dict(np.geterr()), len(_warnings.filters), np.get_printoptions()["precision"])
        if env1 != env0:
            viol.append({"invariant": "C10.process_state_unchanged", "tags": tags,
                         "detail": f"NumPy error state / warnings filters / print options changed {where}: {env0} -> {env1}"})
            np.seterr(**env0[0])
            del _warnings.filters[: max(0, len(_warnings.filters) - env0[1])]
            np.set_printoptions(precision=env0[2])
        for h in list(held):
            if M.canon(h[2]) != h[3]:
                viol.append({"invariant": "C10.result_stable", "tags": tags,
                             "detail": f"the result returned by {h[1]} at op {h[0]} was changed afterwards {where} (a later call wrote into it)"})
                held.remove(h)
        for i, o in enumerate(pool):
            if M.fingerprint(o) != pool_fp[i]:
                viol.append({"invariant": "C10.object_unchanged", "detail": f"pool[{i}] ({type(o).__name__}) changed {where}", "tags": tags})
                pool_fp[i] = M.fingerprint(o)
        for i, c in enumerate(callers):
            if M.fingerprint(list(c.values())) != cfps[i]:
                viol.append({"invariant": "C10.caller_array_unchanged", "detail": f"arrays given to the constructor of pool[{i}] changed {where}", "tags": tags})
                cfps[i] = M.fingerprint(list(c.values()))
        for i, v in args.items():
            now = _afp(v)
            if now != arg_fp[i]:
                viol.append({"invariant": "C10.caller_array_unchanged", "detail": f"side-pool array #{i} changed {where}", "tags": tags})
                arg_fp[i] = now

    pool_fp = [M.fingerprint(o) for o in pool]

    for step, op in enumerate(scn["ops"]):
        k = op["op"]
        if k == "reseed":
            seam.seed(op["seed"])
            trace.append([step, op.get("client"), "reseed"])
            sig.append("reseed")
            continue
        if k == "mutate_arg":
            # caller-side: the caller writes new values into its own (writable) array; not a library call
            v = args.get(op["x"])
            if isinstance(v, np.ndarray) and v.flags.writeable and v.size:
                v += v.dtype.type(op["delta"]) if v.dtype.kind == "f" else v.dtype.type(round(op["delta"]) or 1)
                if op.get("rev") and v.ndim == 1:
                    v[:] = v[::-1].copy()
                arg_fp[op["x"]] = M.fingerprint(v)
                probe("caller_mutates_own_array")
                # results handed out earlier must not have been views of the caller's array
                check_everything_unchanged(f"when the caller wrote into its own threshold array [op {step}]", {"op": k})
            trace.append([step, op.get("client"), "mutate_arg", op["x"]])
            sig.append("mutate_arg")
            continue
        if k == "scribble_result":
            # caller-side: the caller writes into the last result it was handed (it owns that object)
            # (only results of Scores / GroupScores queries: ConfusionMatrix count metrics and indexing return
            # NumPy views of the matrix by design, writing into those legitimately writes into the matrix)
            if held and held[-1][1].split("(")[0] in ("cm", "rate", "thr_at", "group_rate", "group_cm"):
                hstep, hdesc, hval, _ = held.pop()
                target = hval.matrix if M.kind_of(hval) == "ConfusionMatrix" else hval if isinstance(hval, np.ndarray) else None
                if isinstance(target, np.ndarray) and target.size and target.flags.writeable:
                    try:
                        target[...] = 7
                        probe("caller_scribbles_result")
                    except Exception:  # noqa: BLE001
                        pass
                    # writing into a returned result must not reach into any pool object or caller array
                    check_everything_unchanged(f"when the caller wrote into the result of {hdesc} [op {step}]", {"op": k})
            trace.append([step, op.get("client"), "scribble_result"])
            sig.append("scribble_result")
            continue
        if k == "pointwise_big":
            rg = np.random.RandomState(op["seed"])  # harness-owned generator (the seam only watches library callers)
            n_, m_ = min(int(op["n"]), 6000), min(int(op["m"]), 1400)
            pl = rg.randint(0, 2, size=n_)
            ps = np.round(rg.normal(size=n_), 2)
            px = np.round(np.sort(rg.normal(size=m_)), 2)
            tags = {"op": k, "name": "pointwise_cm", "kind": "function"}
            probe("pointwise_big")
            n_viol0 = len(viol)
            try:
                r = L.pointwise_cm(pl, ps, px, score_class=op["score_class"], equal_class=op["equal_class"])
                if np.shape(r) != (n_, m_, 2, 2) or np.asarray(r).dtype != bool:
                    viol.append({"invariant": "C10.shape_law", "tags": tags,
                                 "detail": f"pointwise_cm returned shape {np.shape(r)} dtype {np.asarray(r).dtype}, expected {(n_, m_, 2, 2)} bool [op {step}]"})
                else:
                    lab = pl[:, None] == 1
                    top = M.decide_positive(ps[:, None], px[None, :], op["score_class"], op["equal_class"])
                    for (i_, j_), want in (((0, 0), lab & top), ((0, 1), lab & ~top), ((1, 0), ~lab & top), ((1, 1), ~lab & ~top)):
                        if not np.array_equal(r[:, :, i_, j_], want):
                            w = np.argwhere(r[:, :, i_, j_] != want)[0]
                            viol.append({"invariant": "C10.elementwise", "tags": tags,
                                         "detail": f"pointwise_cm on {n_} scores x {m_} thresholds: cell ({i_}, {j_}) of sample #{int(w[0])} (label {int(pl[w[0]])}, "
                                                   f"score {float(ps[w[0]])!r}) at threshold #{int(w[1])} = {float(px[w[1]])!r} is {bool(r[w[0], w[1], i_, j_])} [op {step}]"})
                            break
                # (a result already known to be wrong may hold uninitialised memory: keep it out of the trace digest)
                dg = hashlib.sha1(np.ascontiguousarray(r).tobytes()).hexdigest()[:12] if n_viol0 == len(viol) else None
                del r
            except Exception as e:  # noqa: BLE001
                viol.append({"invariant": "C10.documented_error", "tags": tags, "detail": f"pointwise_cm on {n_} x {m_} inputs raised {type(e).__name__}: {e} [op {step}]"})
                dg = None
            trace.append([step, op.get("client"), "pointwise_big", n_, m_, dg])
            sig.append("pointwise_big")
            continue
        oi = op["obj"] % len(pool)
        o = pool[oi]
        kind = "cm" if isinstance(o, L.ConfusionMatrix) else "group" if isinstance(o, L.GroupScores) else "scores"
        tags = {"op": k, "name": op.get("name", op.get("metric", op.get("what", "") or (f"auc({op.get('x_axis')}, {op.get('y_axis')})" if k == "auc" else ""))), "kind": kind}
        fl = op.get("faults")
        # an op generated for another kind of object (pool indices shift while shrinking) is skipped
        applicable = {
            "scores": {"cm", "rate", "thr_at", "thr_at_metric", "eer", "auc", "swap", "props", "pointwise_cm", "roc", "noise", "copy_roundtrip"},
            "group": {"cm", "rate", "group_rate", "group_cm", "group_getitem", "groupwise", "noise", "swap", "props", "copy_roundtrip"},
            "cm": {"cm_metric", "cm_ci", "one_vs_all", "cm_getitem", "copy_roundtrip"},
        }[kind]
        if k not in applicable or (k == "group_getitem" and not len(o.groups)):
            continue
        if k == "pointwise_cm" and (len(o.pos) + len(o.neg)) * max(1, int(np.size(args.get(op.get("x"))))) > 20000:
            continue  # keeps the per-sample matrix small even if a defective version broadcasts it quadratically
        fired_kinds = []
        if k == "copy_roundtrip":
            # the caller continues with a copy / a pickled-and-restored object: it must behave like the original
            import copy as _copy
            import pickle as _pickle
            try:
                c_ = {"copy": _copy.copy, "deepcopy": _copy.deepcopy, "pickle": lambda v: _pickle.loads(_pickle.dumps(v))}[op["how"]](o)
                def _noflags(x):  # a copy of a read-only array is writable again: not a difference that matters here
                    return json.dumps(M.fingerprint(x), default=str).replace("true", "_").replace("false", "_")

                if _noflags(c_) != _noflags(o) or type(c_) is not type(o):
                    viol.append({"invariant": "C10.twin_equal", "tags": tags,
                                 "detail": f"{op['how']} of pool[{oi}] is not an equal object of the same type [op {step}]"})
                else:
                    pool[oi] = c_
                    pool_fp[oi] = M.fingerprint(c_)
                    probe("copy_roundtrip")
            except Exception as e:  # noqa: BLE001
                viol.append({"invariant": "C10.twin_equal", "tags": tags, "detail": f"{op['how']} of pool[{oi}] raised {type(e).__name__}: {e} [op {step}]"})
            check_everything_unchanged(f"after {op['how']} [op {step}]", tags)
            trace.append([step, op.get("client"), "copy_roundtrip", op["how"], oi])
            sig.append("copy|" + op["how"])
            continue
        if k == "swap":
            probe("swap_alias")
            s = o.swap()
            t = twin_of(oi).swap()
            if not M.same(s, t):
                viol.append({"invariant": "C10.twin_equal", "detail": f"swap() of pool[{oi}] differs from swap() of a pristine twin [op {step}]", "tags": tags})
            pool.append(s)
            specs.append((specs[oi][0], specs[oi][1] + 1))
            callers.append(M._callers({}))
            cfps.append(M.fingerprint([]))
            pool_fp.append(M.fingerprint(s))
            check_everything_unchanged(f"after swap [op {step}]", tags)
            trace.append([step, op.get("client"), "swap", oi])
            sig.append("swap")
            continue
        if k == "noise":
            probe("noise_op")
            if len(o.pos) == 0 or len(o.neg) == 0:
                continue
            cfg = M.build_config(op["cfg"])
            x = args[op["x"]]
            nm = "group_fnr" if kind == "group" else "fnr"
            t0 = np.asarray(x, dtype=float).reshape(-1)[:1]
            thr = float(t0[0]) if t0.size else 0.0
            fn = {"sample": lambda: o.bootstrap_sample(cfg),
                  "metric": lambda: o.bootstrap_metric(nm, config=cfg, threshold=thr),
                  "ci": lambda: o.bootstrap_ci(nm, config=cfg, threshold=thr)}[op["what"]]
            tw = None
            if fl and any(f["kind"] == "interrupt" for f in fl):
                tobj = twin_of(oi)
                cfg2 = L2.BootstrapConfig(**{k_: getattr(cfg, k_) for k_ in ("nb_samples", "bootstrap_method", "sampling_method", "stratified_sampling", "smoothing", "ratio")})
                tw = {"sample": lambda: tobj.bootstrap_sample(cfg2), "metric": lambda: tobj.bootstrap_metric(nm, config=cfg2, threshold=thr),
                      "ci": lambda: tobj.bootstrap_ci(nm, config=cfg2, threshold=thr)}[op["what"]]
            res = run_op(ctx, fn, fl, tw)
            n_draws += res["draws"]
            n_lines += res["line_events"]
            for _, kd in res["fired"]:
                faults[kd] = faults.get(kd, 0) + 1
                fired_kinds.append(kd)
                n_forced += kd != "interference"
            if res["interrupted"]:
                faults["interrupt"] = faults.get("interrupt", 0) + 1
                fired_kinds.append("interrupt")
                probe("interrupt_fired")
            check_everything_unchanged(f"after noise operation bootstrap_{op['what']} [op {step}]", tags)
            trace.append([step, op.get("client"), "noise", op["what"], sorted(set(fired_kinds)), "ok" if res["ok"] else type(res["value"]).__name__])
            sig.append(f"noise|{op['what']}|{','.join(sorted(set(fired_kinds)))}")
            continue
        # ---- deterministic query: real object vs pristine twin
        x = args.get(op.get("x")) if "x" in op else None
        st_real, st_twin = {}, {}
        twin = twin_of(oi)
        seam.begin_op([])
        try:
            exp = evaluate(twin, op, args, st_twin, L2)
            exp_ok = True
        except Exception as e:  # noqa: BLE001
            exp, exp_ok = e, False
        # the global RNG is deliberately *not* rewound: the twin and the shared object see different
        # stream positions, so a "deterministic" query that consults the RNG disagrees with its twin
        np.random.random_sample(1)
        twin2 = twin_of(oi) if fl else None
        res = run_op(ctx, lambda: evaluate(o, op, args, st_real), fl, (lambda: evaluate(twin2, op, args, {}, L2)) if fl else None)
        n_lines += res["line_events"]
        n_draws += res["draws"]
        if res["interrupted"]:
            faults["interrupt"] = faults.get("interrupt", 0) + 1
            fired_kinds.append("interrupt")
            probe("interrupt_fired")
        if st_real.get("reentered"):
            probe("reentrant_callback")
            faults["callback_reenter"] = faults.get("callback_reenter", 0) + 1
            fired_kinds.append("callback_reenter")
        if st_real.get("cb_raise"):
            probe("callback_raise")
            faults["callback_raise"] = faults.get("callback_raise", 0) + 1
            fired_kinds.append("callback_raise")
        check_everything_unchanged(f"by {k}({tags['name']}) [op {step}]", tags)
        if "pw_inputs" in st_real:
            lab, sc_, f1, f2 = st_real["pw_inputs"]
            if M.fingerprint(lab) != f1 or M.fingerprint(sc_) != f2:
                viol.append({"invariant": "C10.caller_array_unchanged", "detail": f"pointwise_cm modified its labels/scores arguments [op {step}]", "tags": tags})
        outcome = "ok"
        if res["interrupted"]:
            outcome = "interrupted"
        elif not res["ok"]:
            outcome = "raise:" + type(res["value"]).__name__
            if exp_ok:
                viol.append({"invariant": "C10.twin_equal", "tags": tags,
                             "detail": f"{k}({tags['name']}) raised {type(res['value']).__name__}: {res['value']} on the shared object but succeeds on a pristine twin [op {step}]"})
            elif not st_real.get("cb_raise") and any(isinstance(v, np.ndarray) and not v.flags.writeable for v in args.values()) \
                    and _works_with_writable_copies(twin_of(oi), op, args, L2):
                viol.append({"invariant": "C10.readonly_argument_rejected", "tags": tags,
                             "detail": f"{k}({tags['name']}) raises {type(res['value']).__name__}: {res['value']} for a read-only argument array but works on a "
                                       f"writable copy: the query tries to write into the caller's array [op {step}]"})
            elif k == "thr_at" and not isinstance(res["value"], ValueError) and (
                    op.get("method") not in ("linear", "lower", "higher")
                    or len(o.pos if THR_ALIAS.get(op["name"], op["name"]) in ("threshold_at_tpr", "threshold_at_fnr") else
                           o.neg if THR_ALIAS.get(op["name"], op["name"]) in ("threshold_at_tnr", "threshold_at_fpr") else np.concatenate([o.pos, o.neg])) == 0):
                viol.append({"invariant": "C10.documented_error", "tags": tags,
                             "detail": f"{op['name']}(method={op.get('method')!r}) raised {type(res['value']).__name__}: {res['value']}; a ValueError is documented for an "
                                       f"unknown method / a class without scores [op {step}]"})
            elif type(exp) is not type(res["value"]):
                viol.append({"invariant": "C10.twin_equal", "tags": tags,
                             "detail": f"{k}({tags['name']}) raised {type(res['value']).__name__} on the shared object, {type(exp).__name__} on a pristine twin [op {step}]"})
            else:
                probe("exception_agreed")
        else:
            r = res["value"]
            probe("twin_checked")
            if not exp_ok:
                viol.append({"invariant": "C10.twin_equal", "tags": tags,
                             "detail": f"{k}({tags['name']}) succeeded on the shared object but raises {type(exp).__name__} on a pristine twin [op {step}]"})
            elif M.canon(r) != M.canon(exp):
                viol.append({"invariant": "C10.twin_equal", "tags": tags,
                             "detail": f"{k}({tags['name']}) on the shared object returned {str(r)[:160]!r}, a pristine twin returns {str(exp)[:160]!r} [op {step}]"})
            # shape / scalar laws
            err = shape_law(o, op, x, r, L)
            if k == "pointwise_cm" and "pw_inputs" in st_real:
                pl, ps = st_real["pw_inputs"][0], st_real["pw_inputs"][1]
                eshape = np.shape(ps) + np.shape(x) + (2, 2)
                if np.shape(r) != eshape or np.asarray(r).dtype != bool:
                    err = f"pointwise_cm returned shape {np.shape(r)} dtype {np.asarray(r).dtype}, expected {eshape} bool"
                elif np.shape(pl) == np.shape(ps) and np.size(r):
                    # each element: the cell of the (2, 2) matrix in which that sample falls at that threshold (C order of
                    # the logical indices, whatever the memory layout of the arguments)
                    lab = np.asarray(pl).reshape(-1)[:, None] == 1
                    top = M.decide_positive(np.asarray(ps).reshape(-1)[:, None], np.asarray(x, dtype=float).reshape(-1)[None, :],
                                            o.score_class.value, o.equal_class.value)
                    want = np.stack([np.stack([lab & top, lab & ~top], axis=-1), np.stack([~lab & top, ~lab & ~top], axis=-1)], axis=-2)
                    got = np.asarray(r).reshape(want.shape)
                    if not np.array_equal(got, want):
                        w = np.argwhere(got != want)[0]
                        viol.append({"invariant": "C10.elementwise", "tags": tags,
                                     "detail": f"pointwise_cm: sample #{int(w[0])} (label {int(np.asarray(pl).reshape(-1)[w[0]])}, score {float(np.asarray(ps).reshape(-1)[w[0]])!r}) at "
                                               f"threshold #{int(w[1])} = {float(np.asarray(x, dtype=float).reshape(-1)[w[1]])!r}: got {got[w[0], w[1]].astype(int).tolist()}, "
                                               f"the cell it falls in is {want[w[0], w[1]].astype(int).tolist()} [op {step}]"})
                    probe("pointwise_cells_checked")
            if err:
                viol.append({"invariant": "C10.shape_law", "detail": f"{err} [op {step}]", "tags": tags})
            # elementwise law
            elif (isinstance(x, np.ndarray) or hasattr(x, "to_numpy")) and np.ndim(x) >= 1 and np.size(x) > 0 \
                    and k in ("cm", "rate", "thr_at", "group_rate", "group_cm", "thr_at_metric"):
                if hasattr(x, "to_numpy"):
                    x = x.to_numpy()  # a Series argument is its values in positional order
                raws = list(op.get("idx", [])[:3])
                if raws and x.size >= 2048:
                    # a very large argument: a few dozen further elements, derived from the scenario's own indices
                    raws += [(raws[0] * 7919 + j * 104729) % x.size for j in range(1, 33)]
                    probe("huge_argument")
                for raw in raws:
                    flat = raw % x.size
                    idx = np.unravel_index(flat, x.shape)
                    xs = float(x[idx])
                    sub_args = dict(args)
                    sub_args["__s"] = xs
                    sop = dict(op, x="__s", cb=None)
                    try:
                        rs = evaluate(twin_of(oi), sop, sub_args, {}, L2)
                    except Exception as e:  # noqa: BLE001
                        viol.append({"invariant": "C10.elementwise", "tags": tags,
                                     "detail": f"{k}({tags['name']}) works on the array but the scalar call on element {idx} = {xs!r} raises {type(e).__name__} [op {step}]"})
                        break
                    probe("elementwise_checked")
                    if k == "cm":
                        a, b = np.asarray(r.matrix)[idx], np.asarray(rs.matrix)
                    elif k == "group_cm":
                        a, b = np.asarray(r.matrix)[(slice(None),) + idx], np.asarray(rs.matrix)
                    elif k == "group_rate":
                        a, b = np.asarray(r)[(slice(None),) + idx], np.asarray(rs)
                    elif k == "thr_at_metric":
                        a, b = (r[flat] if x.ndim == 1 else None), rs
                        if a is None:
                            continue
                    else:
                        a, b = np.asarray(r)[idx], rs
                    if not M.same(np.asarray(a), np.asarray(b)):
                        viol.append({"invariant": "C10.elementwise", "tags": tags,
                                     "detail": f"{k}({tags['name']}): element {idx} of the array result is {np.asarray(a).tolist()!r} but the scalar call on {xs!r} returns {np.asarray(b).tolist()!r} [op {step}]"})
                        break
            # alias law
            base = None
            if k == "rate" and op["name"] in RATE_ALIAS:
                base = dict(op, name=RATE_ALIAS[op["name"]])
            elif k == "thr_at" and op["name"] in THR_ALIAS:
                base = dict(op, name=THR_ALIAS[op["name"]])
            elif k == "cm_metric" and op["name"] in CM_ALIAS:
                base = dict(op, name=CM_ALIAS[op["name"]])
            elif k == "cm_ci" and op["name"] in CM_CI_ALIAS:
                base = dict(op, name=CM_CI_ALIAS[op["name"]])
            elif k == "group_rate" and op["name"] in c12._BASE:
                base = dict(op, name=c12._BASE[op["name"]])
            elif k == "auc" and (op["x_axis"] in RATE_ALIAS or op["y_axis"] in RATE_ALIAS):
                base = dict(op, x_axis=RATE_ALIAS.get(op["x_axis"], op["x_axis"]), y_axis=RATE_ALIAS.get(op["y_axis"], op["y_axis"]),
                            name=f"auc({RATE_ALIAS.get(op['x_axis'], op['x_axis'])}, {RATE_ALIAS.get(op['y_axis'], op['y_axis'])})")
            if base is not None:
                probe("alias_checked")
                try:
                    rb = evaluate(twin_of(oi), base, args, {}, L2)
                    if M.canon(rb) != M.canon(r):
                        viol.append({"invariant": "C10.alias", "tags": tags,
                                     "detail": f"{tags['name']} returned {str(r)[:120]!r} but {base['name']} returns {str(rb)[:120]!r} [op {step}]"})
                except Exception as e:  # noqa: BLE001
                    viol.append({"invariant": "C10.alias", "detail": f"{base['name']} raised {type(e).__name__} while {tags['name']} succeeded [op {step}]", "tags": tags})
            # as_dict=True: the entry of class j is column j of the array result, with the stack shape kept
            if k in ("cm_metric", "cm_ci") and op.get("as_dict") and isinstance(r, dict):
                try:
                    arr = np.asarray(evaluate(twin_of(oi), dict(op, as_dict=False), args, {}, L2))
                    Xm, N_ = o.matrix.shape[:-2], o.matrix.shape[-1]
                    tail = (2,) if k == "cm_ci" else ()
                    if arr.shape == Xm + (N_,) + tail and len(r) == N_:
                        probe("as_dict_checked")
                        for j, (key_, val_) in enumerate(r.items()):
                            col = arr[(Ellipsis, j) + ((slice(None),) if tail else ())]
                            if np.shape(val_) != col.shape or not M.same(np.asarray(val_), np.asarray(col)):
                                viol.append({"invariant": "C10.shape_law", "tags": tags,
                                             "detail": f"{op['name']}(as_dict=True)[{key_!r}] has shape {np.shape(val_)} on a matrix of shape {o.matrix.shape}; column {j} of the "
                                                       f"array result has shape {col.shape}{'' if np.shape(val_) != col.shape else ' and other values'} [op {step}]"})
                                break
                except Exception as e:  # noqa: BLE001
                    viol.append({"invariant": "C10.shape_law", "tags": tags, "detail": f"{op['name']}() raised {type(e).__name__} while as_dict=True succeeded [op {step}]"})
            # vectorised ConfusionMatrix metric vs the metric of one stacked matrix
            if k == "cm_metric" and not op.get("as_dict") and o.matrix.ndim > 2 and o.matrix.size:
                Xm = o.matrix.shape[:-2]
                idx = np.unravel_index(op.get("which", step) % int(np.prod(Xm)), Xm)
                try:
                    one = getattr(o[idx], op["name"])()
                    if not M.same(np.asarray(np.asarray(r)[idx]), np.asarray(one)):
                        viol.append({"invariant": "C10.elementwise", "tags": tags,
                                     "detail": f"{op['name']}()[{idx}] = {np.asarray(r)[idx]!r} but {op['name']}() of that single matrix = {one!r} [op {step}]"})
                    probe("elementwise_checked")
                except Exception as e:  # noqa: BLE001
                    viol.append({"invariant": "C10.elementwise", "detail": f"metric of a single stacked matrix raised {type(e).__name__} [op {step}]", "tags": tags})
        if res["ok"]:
            held.append((step, f"{k}({tags['name']})", res["value"], M.canon(res["value"])))
            if len(held) > 5:
                held.pop(0)
        trace.append([step, op.get("client"), k, tags["name"], oi, sorted(set(fired_kinds)), outcome,
                      M.digest(M.canon(res["value"]))[:12] if res["ok"] else None])
        sig.append(f"{op.get('client')}|{kind}|{k}|{tags['name']}|{np.shape(x) if x is not None else ''}|{','.join(sorted(set(fired_kinds)))}|{outcome}")
        states.add(f"{kind}|{k}|{tags['name']}|{len(np.shape(x)) if x is not None else '-'}|{outcome.split(':')[0]}")
    seen, out = set(), []
    for v in viol:
        key = (v["invariant"], json.dumps(v.get("tags", {}), sort_keys=True))
        if key not in seen:
            seen.add(key)
            out.append(v)
    return {
        "violations": out, "trace": trace,
        "stats": {"ops": len(scn["ops"]), "draws": n_draws, "forced": n_forced, "line_events": n_lines, "faults": faults, "probes": probes},
        "signature": hashlib.sha1("\n".join(sig).encode()).hexdigest(),
        "nontrivial": len(scn["ops"]) >= 2 or bool(faults), "states": sorted(states),
    }


# --------------------------------------------------------------------------
# minimisation


def shrink(scn):
    ops = scn["ops"]
    for cand in SH.drop_chunks(ops, min_len=1):
        yield SH.with_path(scn, ["ops"], cand)
    for i, op in enumerate(ops):
        if op.get("faults"):
            c = copy.deepcopy(scn)
            del c["ops"][i]["faults"]
            yield c
        if op.get("cb"):
            yield SH.with_path(scn, ["ops", i, "cb"], None)
        if op.get("idx") and len(op["idx"]) > 1:
            yield SH.with_path(scn, ["ops", i, "idx"], op["idx"][:1])
    if len(scn["objects"]) > 1:
        for k in range(len(scn["objects"])):
            c = copy.deepcopy(scn)
            del c["objects"][k]
            yield c
    for ai, a in enumerate(scn["arrays"]):
        if a["shape"]:
            yield SH.with_path(scn, ["arrays", ai], dict(a, shape=[], data=a["data"][:1] or [0.0], scalar_as="py"))
            if len(a["shape"]) > 1 and a["data"]:
                yield SH.with_path(scn, ["arrays", ai], dict(a, shape=[len(a["data"])]))
            if len(a["shape"]) == 1 and a["shape"][0] > 1:
                yield SH.with_path(scn, ["arrays", ai], dict(a, shape=[1], data=a["data"][:1]))
        if a.get("readonly"):
            yield SH.with_path(scn, ["arrays", ai, "readonly"], False)
    for oi, o in enumerate(scn["objects"]):
        if o["kind"] == "scores":
            for key in ("pos", "neg"):
                for cand in SH.drop_chunks(o[key], min_len=0):
                    yield SH.with_path(scn, ["objects", oi, key], cand)
            for key in ("nb_easy_pos", "nb_easy_neg", "swaps"):
                for c_ in SH.shrink_int(o.get(key, 0)):
                    yield SH.with_path(scn, ["objects", oi, key], c_)
            for key in ("presorted", "readonly"):
                if o.get(key):
                    yield SH.with_path(scn, ["objects", oi, key], False)
        elif o["kind"] == "group":
            for key, gkey in (("pos", "pos_groups"), ("neg", "neg_groups")):
                idx = list(range(len(o[key])))
                for keep in SH.drop_chunks(idx, min_len=0):
                    c = copy.deepcopy(scn)
                    c["objects"][oi][key] = [o[key][k] for k in keep]
                    c["objects"][oi][gkey] = [o[gkey][k] for k in keep]
                    c["objects"][oi].pop("perm", None)
                    c["objects"][oi]["via"] = "init"
                    yield c
            if o.get("swaps"):
                yield SH.with_path(scn, ["objects", oi, "swaps"], 0)
        elif o["kind"] == "cm" and o["X"]:
            N = o["N"]
            yield SH.with_path(scn, ["objects", oi], dict(o, X=[], data=o["data"][: N * N] if len(o["data"]) >= N * N else [1] * (N * N)))
        if o["kind"] != "cm":
            for key in ("score_class", "equal_class"):
                if o.get(key) != "pos":
                    yield SH.with_path(scn, ["objects", oi, key], "pos")


def sample_view(scn, res):
    return {"scenario": scn, "signature": res.get("signature"), "violations": [v["invariant"] for v in res["violations"]]}
