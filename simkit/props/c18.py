"""C18 - showbias reports per group the metric of exactly that group's rows, one scale.

System: real showbias (GroupScores.from_labels, group_cm, bootstrap_metric,
utils.bootstrap_ci, pandas frames).  Seams: recording sampler through
BootstrapConfig.sampling_method, global RNG (forced draws make groups vanish from
resamples), reseeds, repeated calls on one frame.  Oracle: independent
filter-and-count per group label tuple, own metric table, normalisation rules, CI of
the normalised replicates recomputed from the recorded resamples.
"""

import copy
import hashlib
import json

import numpy as np

from .. import model as M
from .. import shrink as SH
from ..boot import lib
from ..ops import run_op
from . import c11

ID = "C18"
TIERS = {
    "quick": {"runs": 6000, "selftest": 16, "budget_s": 240, "chunk": 80},
    "thorough": {"runs": 100000, "selftest": 64, "budget_s": 1500, "chunk": 200},
}
RULE = (
    "run i is generated from SHA-256(VERIF_SEED:C18:i): one DataFrame (1-60 rows, 1-3 group columns with 1-6 distinct string "
    "values from an alphabet containing '_', spaces, empty string, non-ASCII and prefixes of one another, labels {0,1} / "
    "strings / multi-valued with pos_label, finite scores with ties, extra columns, non-default index) and 1-3 showbias "
    "calls (every zero-argument ConfusionMatrix metric, thresholds scalar/list/array, normalize None/by_overall/by_min, 4 flag "
    "pairs, bootstrap off or on with quantile/bc/bca, nb_samples 2-60, samplers identity / recording wrapper around built-in "
    "configurations incl. by_group / built-in strings, alpha in [0.01,0.5]) with 0-3 planned draw faults and reseeds. "
    "Non-trivial: every run; distinct = distinct abstract trace signatures."
     " Later rounds added: wide frames (150-320 rows, 60-140 thresholds), tuple thresholds, bool / missing labels, float32/float16/unsigned score columns, categorical and string dtypes, "
    "group columns in another order / a subset, callers' own column names, gaps in unrelated columns, omitted optional arguments, whitespace-variant values, raising and re-entrant samplers, alpha up to 0.95."
)
COMPONENTS = {
    "real": ["score_analysis.showbias.showbias and helpers, GroupScores, utils.bootstrap_ci (from /repo working tree)", "pandas", "numpy global RandomState"],
    "stub": ["sampler callbacks", "forced draw outcomes", "interference"],
}
ASSUMPTIONS = [
    "metrics are the scalar-valued zero-argument ConfusionMatrix methods (the *_ci methods return an extra axis and are excluded)",
    "by_overall intervals: replicates divided by the whole-frame metric of the original data (what the code does) or of the resample are both accepted",
    "by_min intervals: replicates divided by the smallest reported group value or by the smallest group value of the same resample are both accepted",
    "by_min with a NaN group value is left open; row order is not asserted, only the label set and the value per label",
]
PROBES = ["sampler_reenter_fired", "wide_result", "interrupt_fired", "sampler_raise_fired", "multi_column", "underscore_in_values", "bootstrap_on", "by_overall", "by_min", "identity_sampler", "recording_builtin",
          "builtin_string", "group_absent_in_resample", "nan_entry", "divisor_zero", "ci_checked", "single_group", "scalar_threshold",
          "non_default_pos_label", "bca", "bc", "quantile"]

ALPHABET = ["a", "b", "a_b", "b_c", "a_", "_", "x y", "ß", "", "ab", "A", "c", "b_", "_a", "a ", " a", "b\t"]
METRICS = ["pop", "accuracy", "error_rate", "tp", "tn", "fp", "fn", "p", "n", "top", "ton", "tpr", "tnr", "fpr", "fnr", "tar", "frr",
           "trr", "far", "topr", "tonr", "acceptance_rate", "rejection_rate", "ppv", "npv", "fdr", "for_", "class_accuracy", "class_error_rate"]


# --------------------------------------------------------------------------
# generation


def generate(rnd, tier):
    n_cols = rnd.choice([1, 1, 1, 2, 2, 3])
    as_list = n_cols > 1 or rnd.random() < 0.25
    plain = rnd.random() < 0.35  # values without the join character
    cols = [f"g{k}" for k in range(n_cols)]
    vals = []
    for _ in range(n_cols):
        pool = [v for v in ALPHABET if "_" not in v] if plain else ALPHABET
        vals.append(rnd.sample(pool, rnd.randint(1, min(6, len(pool)))))
    n_rows = rnd.randint(1, 60) if rnd.random() < 0.8 else rnd.randint(1, 8)
    wide = rnd.random() < 0.03
    if wide:
        # many groups x many thresholds (results of several thousand entries) and repeated calls on one frame:
        # size-dependent code paths and buffers that survive from one call to the next
        n_cols = rnd.choice([2, 3])
        as_list = True
        cols = [f"g{k}" for k in range(n_cols)]
        vals = [rnd.sample([v for v in ALPHABET if "_" not in v] if plain else ALPHABET, rnd.randint(5, 8)) for _ in range(n_cols)]
        n_rows = rnd.randint(150, 320)
    lab_kind = rnd.choice(["01", "01", "str", "multi", "bool"])
    if lab_kind == "bool":
        labs, pos_label = [False, True], rnd.choice([True, True, False, 0, 1])
    elif lab_kind == "01":
        labs, pos_label = [0, 1], 1
    elif lab_kind == "str":
        labs, pos_label = ["p", "n"], "p"
    else:
        labs, pos_label = [1, 2, 3], 2
    style = rnd.choice(["unique", "ties", "int"])
    scores = c11.gen_values(rnd, n_rows, style, -3, 3)
    rows = []
    for i in range(n_rows):
        rows.append({"g": [rnd.choice(v) for v in vals], "label": rnd.choice(labs), "score": scores[i]})
    frame = {"group_cols": cols, "rows": rows, "extra_col": rnd.random() < 0.3, "index": rnd.choice(["default", "default", "shuffled", "str"]),
             "pos_label": pos_label, "int_scores": style == "int" and rnd.random() < 0.5}
    if frame["extra_col"] and rnd.random() < 0.5:
        frame["extra_nan"] = True
    if lab_kind in ("01", "str") and rnd.random() < 0.08:
        # missing labels: "all other labels are treated as negative"
        for i_, r_ in enumerate(rows):
            if i_ % 4 == 2:
                r_["label"] = None
    if frame["int_scores"] and not frame.get("score_dtype") and rnd.random() < 0.25:
        # integer scores (ids, hashes, raw counts) beyond 2**53, thresholds among them: float64 cannot tell neighbours apart
        frame["bigint"] = True
        for r_ in rows:
            r_["score"] = 2 ** 53 + 2 * int(r_["score"]) + 1
    if rnd.random() < 0.12:
        frame["names"] = {"groups": rnd.sample(["label", "score", "group", "index", "groups", "threshold"], n_cols),
                          "label": rnd.choice(["y", "target", "labels"]), "score": rnd.choice(["s", "scores", "value"])}
    if rnd.random() < 0.15:
        frame["group_dtype"] = rnd.choice(["category", "string", "category_reordered"])  # string values, other pandas dtypes
    if not frame["int_scores"] and rnd.random() < 0.12:
        # single-precision score column whose values sit right next to one-decimal thresholds
        frame["score_dtype"] = rnd.choice(["float32", "float32", "float16"])
        for r_ in rows:
            r_["score"] = float(np.asarray(round(r_["score"], 1), dtype=frame["score_dtype"]))
    if frame["int_scores"] and not frame.get("bigint") and rnd.random() < 0.4:
        frame["score_dtype"] = rnd.choice(["uint8", "uint16", "int32"])
        for r_ in rows:
            r_["score"] = float(abs(r_["score"]))
    ops = []
    fault_free = rnd.random() < 0.34
    wide_thr = sorted({round(rnd.uniform(-3, 3), 3) for _ in range(rnd.randint(60, 140))}) if wide else None
    for _ in range(rnd.randint(2, 3) if wide else rnd.randint(1, 3)):
        if rnd.random() < 0.1 and not wide:
            ops.append({"op": "reseed", "seed": rnd.randrange(2**31)})
            continue
        tkind = rnd.choice(["scalar", "list", "list", "array", "tuple"])
        if wide:
            tkind, thr = "array", wide_thr
        elif tkind == "scalar":
            thr = round(rnd.uniform(-3, 3), 1)
        else:
            thr = sorted({rnd.choice([round(rnd.uniform(-3, 3), 1), float(rnd.randint(-3, 3))]) for _ in range(rnd.randint(1, 4))})
        boot = rnd.random() < (0.85 if wide else 0.6)
        if frame.get("bigint"):
            tkind = rnd.choice(["scalar", "list", "list", "array"])
            cand_ = sorted({2 ** 53 + 2 * rnd.randint(-3, 3) + rnd.choice([0, 1, 2]) for _ in range(rnd.randint(1, 4))})
            thr = cand_[0] if tkind == "scalar" else cand_
        op = {"op": "showbias", "metric": rnd.choice(METRICS) if rnd.random() < 0.7 else rnd.choice(["fnr", "fpr", "tpr", "ppv"]),
              "threshold": thr, "tkind": tkind, "normalize": rnd.choice([None, None, "by_overall", "by_min"]),
              "score_class": rnd.choice(["pos", "neg"]), "equal_class": rnd.choice(["pos", "neg"]),
              "group_columns": cols if as_list else cols[0], "bootstrap_ci": boot,
              "alpha": round(rnd.uniform(0.01, 0.5), 3) if rnd.random() < 0.85 else round(rnd.uniform(0.5, 0.95), 2)}
        if rnd.random() < 0.5:
            op["omit"] = [k_ for k_ in ("normalize", "pos_label", "score_class", "equal_class") if rnd.random() < 0.6]
        if len(cols) > 1 and rnd.random() < 0.4:
            # the caller names the group columns in another order than the frame has them (or only some of them)
            sub = rnd.sample(cols, rnd.randint(2, len(cols)) if rnd.random() < 0.8 else 1)
            op["group_columns"] = sub
        if isinstance(thr, list) and len(thr) > 1 and not wide and rnd.random() < 0.2:
            thr = thr[::-1] if rnd.random() < 0.5 else thr + [thr[0]]  # descending / duplicated thresholds
            op["threshold"] = thr
        if boot:
            r = rnd.random()
            if r < 0.2:
                sampler = {"callable": "identity"}
            else:
                inner = {"sampling_method": rnd.choice(["replacement", "single_pass", "dynamic"]),
                         "stratified_sampling": rnd.choice([None, None, "by_label", "by_group"])}
                sampler = {"callable": "recording", "inner": inner} if rnd.random() < 0.8 else inner
                if "callable" in sampler and rnd.random() < 0.12:
                    sampler["reenter"] = True
            if "callable" in sampler and rnd.random() < 0.3:
                sampler["outer_strat"] = rnd.choice(["by_label", "by_group", "by_group"])
            op["sampler"] = sampler
            op["cfg"] = {"nb_samples": rnd.randint(2, 3) if wide else rnd.randint(2, 60), "bootstrap_method": rnd.choice(["quantile", "bc", "bca", "bca"])}
            if rnd.random() < 0.1:
                op["default_config"] = True  # the library's own default (bca, dynamic, 1000 samples) is too slow: keep method only
            if not fault_free and rnd.random() < 0.12:
                if sampler.get("callable") and rnd.random() < 0.5:
                    op["faults"] = [{"kind": "sampler_raise", "call": rnd.randint(0, op["cfg"]["nb_samples"]),
                                     "exc": rnd.choice(["CallbackFault", "StopIteration", "ValueError", "KeyError", "RuntimeError"])}]
                else:
                    op["faults"] = [{"kind": "interrupt", "at_line": int(10 ** rnd.uniform(0.3, 4.0)), "exc": rnd.choice(["SimInterrupt", "MemoryError"])}]
            elif not fault_free and sampler.get("callable") != "identity" and rnd.random() < 0.5:
                fl = []
                for _ in range(rnd.choice([1, 1, 2])):
                    f = {"kind": rnd.choice(c11.DRAW_FAULTS[:13])}
                    if rnd.random() < 0.4:
                        f["at"] = rnd.randint(0, 60)
                    else:
                        f["every"] = rnd.choice([1, 2, 3, 5])
                        f["offset"] = rnd.randint(0, 4)
                    fl.append(f)
                op["faults"] = fl
        ops.append(op)
    if not any(o["op"] == "showbias" for o in ops):
        ops.append({"op": "showbias", "metric": "fnr", "threshold": [0.0], "tkind": "list", "normalize": None, "score_class": "pos",
                    "equal_class": "pos", "group_columns": cols if as_list else cols[0], "bootstrap_ci": False, "alpha": 0.05})
    return {"np_seed": rnd.randrange(2**31), "frame": frame, "ops": ops}


# --------------------------------------------------------------------------
# reference model


def build_frame(fr):
    import pandas as pd

    rows = fr["rows"]
    data = {}
    for k, c in enumerate(fr["group_cols"]):
        data[c] = [r["g"][k] for r in rows]
    order = ["label", "score"] + list(fr["group_cols"])
    data["label"] = [r["label"] for r in rows]
    data["score"] = [int(r["score"]) if fr.get("int_scores") else r["score"] for r in rows]
    if fr.get("score_dtype"):
        data["score"] = np.asarray(data["score"], dtype=fr["score_dtype"])
    if fr.get("extra_col"):
        data["extra"] = list(range(len(rows)))
        if fr.get("extra_nan"):
            # a column showbias is not asked about, with gaps in it
            data["extra"] = [float("nan") if i % 3 == 1 else float(i) for i in range(len(rows))]
        order = ["extra"] + order
    df = pd.DataFrame({c: data[c] for c in order})
    if fr.get("names"):
        # the caller's own column names: group columns that happen to be called "label" / "score" / "group" / "index",
        # label and score columns called something else
        nm = fr["names"]
        ren = {c: nm["groups"][k] for k, c in enumerate(fr["group_cols"])}
        df = df.rename(columns={"label": "__l", "score": "__s"}).rename(columns=ren).rename(columns={"__l": nm["label"], "__s": nm["score"]})
    gdt = fr.get("group_dtype")
    for k0, c0 in enumerate(fr["group_cols"]):
        c = fr["names"]["groups"][k0] if fr.get("names") else c0
        if gdt in ("category", "string"):
            df[c] = df[c].astype(gdt)
        elif gdt == "category_reordered":
            # string categories in a non-lexical order, with one category that no row uses
            cats = sorted(set(data[c0]), reverse=True) + ["~unused~"]
            df[c] = pd.Categorical(data[c0], categories=cats)
    if fr.get("index") == "shuffled":
        idx = list(range(len(rows)))
        idx = idx[1::2] + idx[0::2]
        df.index = idx
    elif fr.get("index") == "str":
        df.index = [f"r{i}" for i in range(len(rows))]
    return df


def metric_value(name, tp, fn, fp, tn):
    tp, fn, fp, tn = float(tp), float(fn), float(fp), float(tn)
    pop = tp + fn + fp + tn

    def div(a, b):
        return a / b if b != 0 else float("nan")

    table = {
        "pop": pop, "tp": tp, "tn": tn, "fp": fp, "fn": fn, "p": tp + fn, "n": fp + tn, "top": tp + fp, "ton": fn + tn,
        "accuracy": div(tp + tn, pop), "error_rate": 1 - div(tp + tn, pop), "tpr": div(tp, tp + fn), "tnr": div(tn, tn + fp),
        "fpr": div(fp, tn + fp), "fnr": div(fn, tp + fn), "topr": div(tp + fp, pop), "tonr": div(fn + tn, pop),
        "ppv": div(tp, tp + fp), "npv": div(tn, tn + fn),
    }
    table.update({"tar": table["tpr"], "frr": table["fnr"], "trr": table["tnr"], "far": table["fpr"],
                  "acceptance_rate": table["topr"], "rejection_rate": table["tonr"], "fdr": 1 - table["ppv"], "for_": 1 - table["npv"],
                  "class_accuracy": table["accuracy"], "class_error_rate": table["error_rate"]})
    return table[name]


def as_num(x):
    """Integer scores stay integers (exact beyond 2**53), everything else is compared as float64."""
    a = np.asarray(x)
    return a if a.dtype.kind in "iu" else a.astype(float)


def counts(scores, is_pos, t, sc, ec):
    top = M.decide_positive(as_num(scores), t, sc, ec)
    is_pos = np.asarray(is_pos, dtype=bool)
    tp = int(np.sum(top & is_pos))
    fn = int(np.sum(~top & is_pos))
    fp = int(np.sum(top & ~is_pos))
    tn = int(np.sum(~top & ~is_pos))
    return tp, fn, fp, tn


def normalise(vals, denom):
    """vals (G,T) / denom (T,), unnormalised where the divisor is 0."""
    out = np.array(vals, dtype=float, copy=True)
    for j in range(out.shape[1]):
        d = denom[j]
        if d != 0:
            out[:, j] = out[:, j] / d
    return out


class CallbackFault(Exception):
    pass


class RecSampler:
    def __init__(self, kind, inner, raise_at=None):
        self.kind, self.inner = kind, inner
        self.inputs, self.outputs = [], []
        self.raise_at, self.raised = raise_at, False
        self.reenter, self.reentered = False, False
        self.raise_exc = None
        self.limit, self.runaway = None, False

    def __call__(self, source, **kw):
        if self.limit is not None and len(self.inputs) >= self.limit:
            self.runaway = True
            raise RuntimeError(f"simkit: sampler invoked {len(self.inputs) + 1} times")
        if self.raise_at is not None and len(self.inputs) == self.raise_at:
            self.raised = True
            self.inputs.append(source)
            raise {"StopIteration": StopIteration, "ValueError": ValueError, "KeyError": KeyError, "RuntimeError": RuntimeError}.get(
                self.raise_exc, CallbackFault)(f"planned failure of sampler call {self.raise_at}")
        self.inputs.append(source)
        if self.reenter and len(self.inputs) % 3 == 2:
            self.reentered = True
            source.cm(np.array([0.0]))
            source.group_cm(np.array([0.0]))
            if len(source.groups):
                source[source.groups[0]]
            source.bootstrap_sample(lib().BootstrapConfig(sampling_method="replacement"))
        out = source if self.kind == "identity" else source.bootstrap_sample(self.inner)
        self.outputs.append(out)
        return out


def group_multisets_from_object(o):
    d = {}
    for g in o.groups.tolist():
        d[g] = (tuple(np.sort(np.asarray(o.pos, dtype=float)[o.pos_groups == g]).tolist()),
                tuple(np.sort(np.asarray(o.neg, dtype=float)[o.neg_groups == g]).tolist()))
    return d


# --------------------------------------------------------------------------
# execution


def execute(scn, ctx):
    import pandas as pd

    L = lib()
    seam = ctx.seam
    seam.seed(scn["np_seed"])
    fr = scn["frame"]
    df = build_frame(fr)
    df_fp = M.fingerprint(df)
    cols = fr["group_cols"]
    rows = fr["rows"]
    pos_label = fr["pos_label"]
    viol, trace, sig = [], [], []
    probes, faults = {}, {}
    n_draws = n_forced = 0
    states = set()

    def probe(name, k=1):
        probes[name] = probes.get(name, 0) + k

    if len(cols) > 1:
        probe("multi_column")
    if any("_" in v for r in rows for v in r["g"]):
        probe("underscore_in_values")
    if pos_label != 1:
        probe("non_default_pos_label")

    for step, op in enumerate(scn["ops"]):
        if op["op"] == "reseed":
            seam.seed(op["seed"])
            trace.append([step, "reseed"])
            sig.append("reseed")
            continue
        gc = op["group_columns"]
        multi = isinstance(gc, list)
        used = gc if multi else [gc]
        kidx = [cols.index(c) for c in used]
        key_of = (lambda r: tuple(r["g"][k] for k in kidx)) if multi else (lambda r: r["g"][kidx[0]])
        keys = [key_of(r) for r in rows]
        distinct = sorted(set(keys), key=repr)
        metric, norm, boot = op["metric"], op.get("normalize"), bool(op.get("bootstrap_ci"))
        sc, ec = op["score_class"], op["equal_class"]
        thr_in = op["threshold"]
        tk = op.get("tkind", "list")
        thr_arg = thr_in if tk in ("scalar", "list") else tuple(thr_in) if tk == "tuple" else np.asarray(thr_in, dtype=float)
        tlist = [float(thr_in)] if tk == "scalar" else [float(t) for t in thr_in]
        if fr.get("bigint"):
            # integer scores and thresholds beyond 2**53: compared exactly, as integers
            thr_arg = int(thr_in) if tk == "scalar" else [int(t) for t in thr_in] if tk in ("list", "tuple") else np.asarray([int(t) for t in thr_in], dtype=np.int64)
            thr_arg = tuple(thr_arg) if tk == "tuple" else thr_arg
            tvals = [int(thr_in)] if tk == "scalar" else [int(t) for t in thr_in]
        else:
            tvals = tlist
        thr_fp = M.fingerprint(thr_arg) if isinstance(thr_arg, np.ndarray) else None
        tags = {"normalize": norm, "bootstrap_ci": boot, "multi": multi}
        if len(distinct) == 1:
            probe("single_group")
        if len(distinct) * len(tlist) >= 4096:
            probe("wide_result")
        if tk == "scalar":
            probe("scalar_threshold")
        if norm:
            probe(norm)
        sampler = None
        kw = {}
        s_kind = None
        if boot:
            probe("bootstrap_on")
            sspec, cfg = op["sampler"], op["cfg"]
            s_kind = sspec.get("callable") or "builtin"
            tags["method"] = cfg["bootstrap_method"]
            tags["sampler"] = s_kind
            probe(cfg["bootstrap_method"])
            probe({"identity": "identity_sampler", "recording": "recording_builtin", "builtin": "builtin_string"}[s_kind])
            if s_kind != "builtin":
                inner = M.build_config(dict(sspec.get("inner", {}), nb_samples=1)) if s_kind == "recording" else None
                ra = next((f["call"] for f in (op.get("faults") or []) if f["kind"] == "sampler_raise"), None)
                sampler = RecSampler(s_kind, inner, raise_at=ra)
                sampler.reenter = bool(sspec.get("reenter"))
                sampler.raise_exc = next((f.get("exc") for f in (op.get("faults") or []) if f["kind"] == "sampler_raise"), None)
                sampler.limit = 6 * int(cfg["nb_samples"]) + 40
                config = M.build_config(dict(cfg, sampling_method={"callable": s_kind}, stratified_sampling=sspec.get("outer_strat")), sampler=sampler)
            else:
                config = M.build_config(dict(sspec, **cfg))
            kw = {"bootstrap_ci": True, "bootstrap_config": config, "alpha": op["alpha"]}
        nm_ = fr.get("names")
        gmap = {c: nm_["groups"][k] for k, c in enumerate(cols)} if nm_ else {}
        gc_arg = [gmap.get(c, c) for c in gc] if multi else gmap.get(gc, gc)
        used = [gmap.get(c, c) for c in used]
        # optional arguments the caller leaves out take their documented defaults (score_class "pos", equal_class "pos",
        # pos_label 1, normalize None); they are only left out when the scenario's value is that default
        opt = {"normalize": norm, "pos_label": pos_label, "score_class": sc, "equal_class": ec}
        defaults = {"normalize": None, "pos_label": 1, "score_class": "pos", "equal_class": "pos"}
        for k_ in op.get("omit", []):
            if k_ in opt and opt[k_] == defaults[k_] and type(opt[k_]) is type(defaults[k_]):
                del opt[k_]
                probe("optional_argument_omitted")
        call = lambda: L.showbias(df, group_columns=gc_arg, label_column=nm_["label"] if nm_ else "label",  # noqa: E731
                                  score_column=nm_["score"] if nm_ else "score", metric=metric, threshold=thr_arg, **opt, **kw)
        res = run_op(ctx, call, op.get("faults"))
        n_draws += res["draws"]
        fired = [kd for _, kd in res["fired"]]
        n_forced += sum(1 for kd in fired if kd != "interference")
        if res["interrupted"]:
            fired.append("interrupt")
            probe("interrupt_fired")
        if sampler is not None and sampler.raised:
            fired.append("sampler_raise")
            probe("sampler_raise_fired")
        if sampler is not None and sampler.reentered:
            fired.append("sampler_reenter")
            probe("sampler_reenter_fired")
        control_fault = res["interrupted"] or (sampler is not None and sampler.raised)
        for kd in fired:
            faults[kd] = faults.get(kd, 0) + 1

        def bad(name, detail, extra=None):
            viol.append({"invariant": f"C18.{name}", "detail": f"{detail} [op {step}]", "tags": dict(tags, **(extra or {}))})

        if sampler is not None and boot and not control_fault and (sampler.runaway or (res["ok"] and len(sampler.inputs) != int(op["cfg"]["nb_samples"]))):
            # the intervals are those of the configured number of resamples of the configured sampler
            bad("ci_same_quantity", f"showbias invoked the configured sampler {'more than ' + str(sampler.limit) if sampler.runaway else len(sampler.inputs)} times "
                                    f"for nb_samples={op['cfg']['nb_samples']}", {"resample_count": True})
            if sampler.runaway:
                control_fault = True
        if M.fingerprint(df) != df_fp:
            bad("data_unchanged", "showbias modified the caller's DataFrame")
        if thr_fp is not None and M.fingerprint(thr_arg) != thr_fp:
            bad("data_unchanged", "showbias modified the caller's threshold array")
        outcome = "ok"
        outside = False
        if boot and s_kind != "identity":
            inner_ = op["sampler"].get("inner", op["sampler"])
            sm, st = inner_.get("sampling_method"), inner_.get("stratified_sampling")
            npos = sum(1 for r in rows if r["label"] == pos_label)
            nneg = len(rows) - npos
            eff_single = sm == "single_pass" or (sm == "dynamic" and st != "by_group" and min(npos, nneg) >= 100)
            lacking = any(not any(k == d and r["label"] == pos_label for k, r in zip(keys, rows)) or
                          not any(k == d and r["label"] != pos_label for k, r in zip(keys, rows)) for d in distinct)
            # single-pass sampling of an empty stratum is outside the sampling quantifier (C11/C12)
            outside = eff_single and (npos == 0 or nneg == 0 or (st == "by_group" and lacking))
        if res["ok"] and sampler is not None and sampler.raised and sampler.raise_at is not None and sampler.raise_at < int(op["cfg"]["nb_samples"]):
            bad("sampler_failure_swallowed", f"the sampler raised {sampler.raise_exc or 'CallbackFault'} on call {sampler.raise_at} of "
                                             f"{op['cfg']['nb_samples']} but showbias returned intervals")
            outcome = "returned-after-swallowed-failure"  # the intervals are typically uninitialised memory: nothing else is checked
        elif not res["ok"] and control_fault:
            outcome = "failed-after-fault"  # fail-or-correct: the frame was checked above
        elif not res["ok"] and outside:
            outcome = "outside-quantifier:" + type(res["value"]).__name__
        elif not res["ok"]:
            outcome = "raise:" + type(res["value"]).__name__
            tags = dict(tags, message=str(res["value"])[:60])
            bad("raises", f"showbias(metric={metric}, normalize={norm}, bootstrap_ci={boot}) raised {type(res['value']).__name__}: {str(res['value'])[:160]}",
                {"error": type(res["value"]).__name__})
        else:
            bf = res["value"]
            vals = bf.values
            ok_struct = isinstance(vals, pd.DataFrame)
            if not ok_struct:
                bad("labels", f"values is {type(vals).__name__}")
            else:
                got_labels = [str(x) if not isinstance(x, tuple) else tuple(str(v) for v in x) for x in vals.index]
                if multi:
                    got_labels = [x if isinstance(x, tuple) else (x,) for x in got_labels]
                if sorted(got_labels, key=repr) != sorted(distinct, key=repr):
                    bad("labels", f"row labels {got_labels} != distinct group value tuples {distinct}")
                    ok_struct = False
                if [float(c) for c in vals.columns] != tlist:
                    bad("columns", f"columns {list(vals.columns)} != thresholds {tlist}")
                    ok_struct = False
                if ok_struct and multi and list(vals.index.names) != list(used):
                    bad("labels", f"index names {list(vals.index.names)} != group columns {used}")
            if ok_struct:
                # ---- values by independent filter-and-count
                G, T = len(got_labels), len(tlist)
                raw = np.empty((G, T))
                for a, lab in enumerate(got_labels):
                    sel = [i for i, k in enumerate(keys) if k == lab]
                    s_ = [rows[i]["score"] for i in sel]
                    ip = [rows[i]["label"] == pos_label for i in sel]
                    for b, t in enumerate(tvals):
                        raw[a, b] = metric_value(metric, *counts(s_, ip, t, sc, ec))
                all_s = [r["score"] for r in rows]
                all_p = [r["label"] == pos_label for r in rows]
                overall = np.array([metric_value(metric, *counts(all_s, all_p, t, sc, ec)) for t in tvals])
                if np.isnan(raw).any():
                    probe("nan_entry")
                skip_norm = False
                if norm == "by_overall":
                    exp = normalise(raw, overall)
                    if np.any(overall == 0):
                        probe("divisor_zero")
                elif norm == "by_min":
                    if np.isnan(raw).any():
                        skip_norm = True  # open case
                        exp = None
                    else:
                        mn = raw.min(axis=0)
                        exp = normalise(raw, mn)
                        if np.any(mn == 0):
                            probe("divisor_zero")
                else:
                    exp = raw
                got = vals.to_numpy(dtype=float)
                if not skip_norm:
                    if got.shape != exp.shape or not M.close(got, exp, 1e-12):
                        which = "values" if norm is None else "normalisation"
                        bad(which, f"reported {got.tolist()} for labels {got_labels}; counting the rows of each group gives {raw.tolist()}, "
                                   f"overall {overall.tolist()}, expected after normalize={norm}: {exp.tolist()}")
                # ---- bootstrap intervals
                if boot:
                    lower, upper = bf.lower, bf.upper
                    good = True
                    for nm, fr_ in (("lower", lower), ("upper", upper)):
                        if not isinstance(fr_, pd.DataFrame) or list(fr_.index) != list(vals.index) or \
                                [float(c) for c in fr_.columns] != tlist or fr_.shape != vals.shape:
                            bad("ci_labels", f"{nm} does not carry the same labels/columns as values")
                            good = False
                    if bf.alpha != op["alpha"]:
                        bad("ci_labels", f"alpha {bf.alpha} != requested {op['alpha']}")
                    if good:
                        lo, up = lower.to_numpy(dtype=float), upper.to_numpy(dtype=float)
                        fin = np.isfinite(lo) & np.isfinite(up)
                        if np.any(lo[fin] > up[fin]):
                            bad("ci_ordered", f"lower > upper: lower={lo.tolist()} upper={up.tolist()}")
                        if sampler is not None and len(sampler.outputs) == int(op["cfg"]["nb_samples"]) and not skip_norm and sampler.inputs \
                                and not control_fault:
                            # map the library's internal group labels to frame labels through the data itself
                            src_obj = sampler.inputs[0]
                            internal = group_multisets_from_object(src_obj) if isinstance(src_obj, L.GroupScores) else None
                            frame_ms = {}
                            for lab in got_labels:
                                sel = [i for i, k in enumerate(keys) if k == lab]
                                frame_ms[lab] = (tuple(sorted(float(rows[i]["score"]) for i in sel if rows[i]["label"] == pos_label)),
                                                 tuple(sorted(float(rows[i]["score"]) for i in sel if rows[i]["label"] != pos_label)))
                            mapping = {}
                            if internal is not None and len(internal) == len(frame_ms):
                                free = dict(internal)
                                for lab, ms in frame_ms.items():
                                    hit = next((g for g, m_ in free.items() if m_ == ms), None)
                                    if hit is None:
                                        mapping = None
                                        break
                                    mapping[lab] = hit
                                    del free[hit]
                            else:
                                mapping = None
                            if mapping is None:
                                bad("groups_faithful", "the groups of the object handed to the sampler are not the frame's groups (rows merged or split)")
                            else:
                                N = len(sampler.outputs)
                                reps = np.empty((N, G, T))
                                reps_over = np.empty((N, T))
                                absent = 0
                                for j, s in enumerate(sampler.outputs):
                                    allsc = np.concatenate([as_num(s.pos), as_num(s.neg)])
                                    allp = np.concatenate([np.ones(len(s.pos), bool), np.zeros(len(s.neg), bool)])
                                    allg = np.concatenate([s.pos_groups, s.neg_groups]) if len(allsc) else np.asarray([])
                                    for a, lab in enumerate(got_labels):
                                        m_ = allg == mapping[lab] if len(allsc) else np.zeros(0, bool)
                                        if not np.any(m_):
                                            absent += 1
                                        for b, t in enumerate(tvals):
                                            reps[j, a, b] = metric_value(metric, *counts(allsc[m_], allp[m_], t, sc, ec))
                                    for b, t in enumerate(tvals):
                                        reps_over[j, b] = metric_value(metric, *counts(allsc, allp, t, sc, ec))
                                if absent:
                                    probe("group_absent_in_resample", absent)
                                method = op["cfg"]["bootstrap_method"]
                                cands = []
                                if norm is None:
                                    cands.append(reps)
                                elif norm == "by_overall":
                                    cands.append(np.stack([normalise(reps[j], overall) for j in range(N)]))
                                    cands.append(np.stack([normalise(reps[j], reps_over[j]) for j in range(N)]))
                                else:
                                    mn = raw.min(axis=0)
                                    cands.append(np.stack([normalise(reps[j], mn) for j in range(N)]))
                                    per = []
                                    for j in range(N):
                                        with np.errstate(all="ignore"):
                                            mj = np.nanmin(reps[j], axis=0) if not np.isnan(reps[j]).all(axis=0).any() else np.full(T, np.nan)
                                        per.append(normalise(reps[j], mj))
                                    cands.append(np.stack(per))
                                    per2 = [normalise(reps[j], np.min(reps[j], axis=0)) for j in range(N)]
                                    cands.append(np.stack(per2))
                                probe("ci_checked")
                                est = got
                                matched = False
                                exp_ci = None
                                for th in cands:
                                    exp_ci = M.ref_ci(th, est, op["alpha"], method)
                                    if M.close(lo, exp_ci[..., 0], 1e-9) and M.close(up, exp_ci[..., 1], 1e-9):
                                        matched = True
                                        break
                                if not matched:
                                    e0 = M.ref_ci(cands[0], est, op["alpha"], method)
                                    extra = None
                                    if norm == "by_min":
                                        # signature of known finding F6: every group's replicates divided by the minimum over
                                        # the *replicate* axis (np.min(samples, axis=0), NaN-propagating), unnormalised where 0
                                        with np.errstate(all="ignore"):
                                            d6 = np.min(reps, axis=0)
                                            th6 = np.where(d6 != 0, reps / np.where(d6 != 0, d6, 1.0), reps)
                                        e6 = M.ref_ci(th6, est, op["alpha"], method)
                                        extra = {"f6_signature": bool(M.close(lo, e6[..., 0], 1e-9) and M.close(up, e6[..., 1], 1e-9))}
                                    tags = dict(tags, **(extra or {}))
                                    bad("ci_same_quantity", f"lower={lo.tolist()} upper={up.tolist()} but the {method} interval of the normalised "
                                                            f"replicates (normalize={norm}) with the reported values {est.tolist()} as estimate is "
                                                            f"lower={e0[..., 0].tolist()} upper={e0[..., 1].tolist()}")
        trace.append([step, "showbias", metric, tags, sorted(set(fired)), outcome,
                      M.digest(M.canon(res["value"]))[:16] if res["ok"] and not control_fault else None, res["draws"]])
        inner = (op.get("sampler") or {}).get("inner", op.get("sampler") or {})
        sig.append(f"{metric}|{norm}|{boot}|{tags.get('method')}|{s_kind}|{inner.get('sampling_method', '')}|{inner.get('stratified_sampling', '')}|"
                   f"{len(used)}|{tk}|{sc}{ec}|{','.join(sorted(set(fired)))}|{outcome}")
        states.add(f"{len(used)}|{norm}|{boot}|{tags.get('method')}|{s_kind}|{min(len(distinct), 4)}g|{tk}")
    seen, out = set(), []
    for x in viol:
        key = (x["invariant"], json.dumps(x.get("tags", {}), sort_keys=True))
        if key not in seen:
            seen.add(key)
            out.append(x)
    return {
        "violations": out, "trace": trace,
        "stats": {"ops": len(scn["ops"]), "draws": n_draws, "forced": n_forced, "faults": faults, "probes": probes},
        "signature": hashlib.sha1("\n".join(sig).encode()).hexdigest(), "nontrivial": True, "states": sorted(states),
    }


# --------------------------------------------------------------------------
# minimisation


def shrink(scn):
    ops = scn["ops"]
    for cand in SH.drop_chunks(ops, min_len=1):
        yield SH.with_path(scn, ["ops"], cand)
    fr = scn["frame"]
    for cand in SH.drop_chunks(fr["rows"], min_len=1):
        yield SH.with_path(scn, ["frame", "rows"], cand)
    for i, op in enumerate(ops):
        if op["op"] != "showbias":
            continue
        for cand in SH.drop_chunks(op.get("faults") or []):
            yield SH.with_path(scn, ["ops", i, "faults"], cand)
        if op.get("bootstrap_ci"):
            for nb in SH.shrink_int(op["cfg"]["nb_samples"], lo=1):
                yield SH.with_path(scn, ["ops", i, "cfg", "nb_samples"], nb)
            if op["sampler"].get("callable") != "identity":
                yield SH.with_path(scn, ["ops", i, "sampler"], {"callable": "identity"})
            if op["cfg"]["bootstrap_method"] != "quantile":
                yield SH.with_path(scn, ["ops", i, "cfg", "bootstrap_method"], "quantile")
            c = copy.deepcopy(scn)
            c["ops"][i]["bootstrap_ci"] = False
            yield c
        if op.get("normalize"):
            yield SH.with_path(scn, ["ops", i, "normalize"], None)
        if isinstance(op["threshold"], list) and len(op["threshold"]) > 1:
            for cand in SH.drop_chunks(op["threshold"], min_len=1):
                yield SH.with_path(scn, ["ops", i, "threshold"], cand)
        for key in ("score_class", "equal_class"):
            if op.get(key) != "pos":
                yield SH.with_path(scn, ["ops", i, key], "pos")
        if op["metric"] != "fnr":
            yield SH.with_path(scn, ["ops", i, "metric"], "fnr")
    if fr.get("extra_col"):
        yield SH.with_path(scn, ["frame", "extra_col"], False)
    if fr.get("index") != "default":
        yield SH.with_path(scn, ["frame", "index"], "default")
    # fewer group columns
    if len(fr["group_cols"]) > 1:
        for k in range(len(fr["group_cols"])):
            c = copy.deepcopy(scn)
            del c["frame"]["group_cols"][k]
            for r in c["frame"]["rows"]:
                del r["g"][k]
            for op in c["ops"]:
                if op["op"] == "showbias":
                    op["group_columns"] = list(c["frame"]["group_cols"])
            yield c
    scores = [r["score"] for r in fr["rows"]]
    for cand in SH.simplify_numbers(scores):
        c = copy.deepcopy(scn)
        for r, v in zip(c["frame"]["rows"], cand):
            r["score"] = v
        yield c


def sample_view(scn, res):
    return {"scenario": scn, "signature": res.get("signature"), "violations": [v["invariant"] for v in res["violations"]]}
