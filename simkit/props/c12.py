"""C12 - group labels stay attached to their scores; groups partition the data.

System: real GroupScores (constructor, from_labels, swap, __getitem__ with its lazily
filled cache, group_cm and group_* metrics, groupwise, bootstrap_sample).
Workload: histories of operations on a growing pool (samples are adopted into the
pool and operated on in turn).  Faults: forced draw outcomes (whole groups vanish
from a resample), stream interference, reseeds, line-event interrupts inside cache
fills and the by-group loop.  Oracle: history-free pair-multiset model.
"""

import copy
import hashlib
import json

import numpy as np

from .. import model as M
from .. import shrink as SH
from .. import stats as ST
from ..boot import lib
from ..ops import run_op
from .c11 import DRAW_FAULTS, gen_values

ID = "C12"
DELTA = ST.DELTA
TIERS = {
    "quick": {"runs": 9000, "stat_jobs": 24, "stat_M": 5000, "selftest": 16, "budget_s": 240, "chunk": 120},
    "thorough": {"runs": 140000, "stat_jobs": 96, "stat_M": 25000, "selftest": 64, "budget_s": 1500, "chunk": 300},
}
RULE = (
    "run i is generated from SHA-256(VERIF_SEED:C12:i): 1-2 GroupScores (1-5 groups, string or int labels incl. '_', spaces, "
    "non-ASCII and prefixes, groups lacking a class, ties across groups, 2-60 scores or 200-400 for single-pass; built via "
    "__init__/from_labels/pre-sorted, optional explicit group_names, 0-2 swaps) and 4-24 operations (gs[g] cold/warm, unknown "
    "group, group_cm, group_* metrics, groupwise(name|callable), swap, bootstrap_sample under replacement/single_pass/dynamic x "
    "None/by_label/by_group with adoption of samples into the pool, bootstrap_metric('group_*')) with 0-3 planned faults. "
    "Non-trivial: >= 2 operations or >= 1 fault fired; distinct = distinct abstract trace signatures."
     " Later rounds added: 11-24 groups, large adjacent integer ids, keyword-like and whitespace-variant labels, containers, copy/pickle steps, "
    "raising / type-varying / user-named callables for groupwise, unsigned and integer score dtypes, pos_label variants."
)
COMPONENTS = {
    "real": ["score_analysis.group_scores.GroupScores and Scores (from /repo working tree)", "numpy global RandomState (faithful path)"],
    "stub": ["forced draw outcomes", "interference draws", "SimInterrupt/MemoryError raised at planned line events", "callable metrics passed to groupwise"],
}
ASSUMPTIONS = [
    "by_group sampling of a group that lacks a class is exercised for replacement only and an exception there is not reported (quantifier: every sampled stratum non-empty)",
    "dynamic sampling with a class of exactly 100 scores is left open",
    "exact count preservation is asserted for effective replacement sampling only",
]
PROBES = ["cache_fill", "cache_hit", "group_missing_in_sample", "interrupt_fired", "adopted_sample", "by_group", "single_pass",
          "explicit_group_names", "group_without_class", "swap", "int_labels", "ties_across_groups", "copy_copy", "copy_deepcopy", "copy_pickle"]

LABEL_POOLS = [
    ["a", "b", "c", "d", "e"],
    ["grp_1", "grp_2", "grp", "g", "grp_1_x"],
    ["x y", "x", "y", "ß", "é"],
    ["A", "a", "AA", "aa", "Z"],
    ["all", "none", "total", "nan", "index", "groups", "0"],  # ordinary strings that read like keywords / sentinels
    ["EU", "EU ", "EU\t", " EU", "eu", "E U"],  # labels that differ only by whitespace or case are different labels
]
GROUP_METRICS = ["group_tpr", "group_fnr", "group_tnr", "group_fpr", "group_topr", "group_tonr", "group_tar", "group_frr",
                 "group_trr", "group_far", "group_acceptance_rate", "group_rejection_rate"]
_BASE = {"group_tar": "group_tpr", "group_frr": "group_fnr", "group_trr": "group_tnr", "group_far": "group_fpr",
         "group_acceptance_rate": "group_topr", "group_rejection_rate": "group_tonr"}


# --------------------------------------------------------------------------
# generation


def gen_gs(rnd, big=False):
    n_groups = rnd.randint(1, 5)
    many = rnd.random() < 0.05
    if many:
        n_groups = rnd.randint(11, 24)  # two-digit group counts (string vs numeric ordering of labels)
    if rnd.random() < 0.3 or many:
        gdtype = "int"
        labels = rnd.sample(range(0, 40 if many else 9), n_groups)
        if rnd.random() < 0.3:
            # large adjacent identifiers (customer / device ids): distinct labels that are relatively close
            base_id = rnd.choice([100000, 10 ** 7, 2 ** 31, 10 ** 12])
            labels = [base_id + v for v in labels]
    else:
        gdtype = "str"
        labels = rnd.sample(rnd.choice(LABEL_POOLS), n_groups)
    if big and rnd.random() < 0.35 and not many:
        # two groups that are each large enough for the Poisson branch of single-pass sampling inside by_group
        n_groups = 2
        labels = labels[:1] + [labels[0] + 1 if gdtype == "int" else labels[0] + "2"]
    if big:
        npos, nneg = (rnd.randint(210, 300), rnd.randint(210, 300)) if n_groups == 2 and rnd.random() < 0.6 else (rnd.randint(101, 260), rnd.randint(101, 260))
    elif many:
        npos, nneg = rnd.randint(20, 60), rnd.randint(20, 60)
    else:
        npos, nneg = rnd.randint(1, 40), rnd.randint(1, 40)
        if rnd.random() < 0.1:
            npos, nneg = rnd.randint(1, 4), rnd.randint(1, 4)
    style = rnd.choice(["unique", "unique", "ties", "int"])
    pos = gen_values(rnd, npos, style, -3, 6)
    neg = gen_values(rnd, nneg, style, -6, 3)
    full = rnd.random() < 0.6  # every group has both classes

    def assign(n):
        return [rnd.choice(labels) for _ in range(n)]

    pg, ng = assign(npos), assign(nneg)
    if full:
        for k, g in enumerate(labels):
            if k < npos:
                pg[k] = g
            if k < nneg:
                ng[k] = g
    elif rnd.random() < 0.5 and n_groups > 1:
        g = labels[0]  # a group without positives
        pg = [labels[1] if x == g else x for x in pg]
    sdtype = "float64"
    if style == "int" and rnd.random() < 0.5:
        sdtype = rnd.choice(["int64", "uint8", "uint16", "int32"])
        if sdtype.startswith("u"):
            pos, neg = [abs(v) for v in pos], [abs(v) for v in neg]
        pos, neg = [int(v) for v in pos], [int(v) for v in neg]
    spec = {
        "pos": pos, "neg": neg, "pos_groups": pg, "neg_groups": ng, "gdtype": gdtype, "dtype": sdtype,
        "score_class": rnd.choice(["pos", "neg"]), "equal_class": rnd.choice(["pos", "neg"]),
        "via": rnd.choice(["init", "init", "from_labels"]), "presorted": rnd.random() < 0.15,
        "swaps": rnd.choice([0, 0, 0, 1, 2]), "style": style,
    }
    if spec["via"] == "from_labels":
        perm = list(range(npos + nneg))
        rnd.shuffle(perm)
        spec["perm"] = perm
        spec["pos_label"] = rnd.choice([1, 1, 0, "p", True, False])
    elif rnd.random() < 0.3 and spec["swaps"] == 0:
        names = sorted(set(pg) | set(ng))
        rnd.shuffle(names)
        if rnd.random() < 0.4:
            extra = [x for x in (rnd.choice(LABEL_POOLS) if gdtype == "str" else list(range(9, 12))) if x not in names]
            if extra:
                names.insert(rnd.randrange(len(names) + 1), extra[0])
        spec["group_names"] = names
    if rnd.random() < 0.15:
        spec["container"] = rnd.choice(["list", "tuple", "strided", "negstride", "series", "series"])
    return spec


def all_labels(spec):
    return sorted(set(spec["pos_groups"]) | set(spec["neg_groups"]))


def gen_thr(rnd):
    shape = rnd.choice([(), (1,), (3,), (2, 2), (0,), (4,)])
    n = int(np.prod(shape)) if shape else 1
    vals = [rnd.choice([round(rnd.uniform(-6, 6), 1), float(rnd.randint(-6, 6))]) for _ in range(n)]
    return {"shape": list(shape), "data": vals}


def gen_cfg(rnd, big, full):
    method = rnd.choice(["replacement", "single_pass", "dynamic"])
    strat = rnd.choice([None, "by_label", "by_group", "by_group"])
    if method == "single_pass" and strat == "by_group" and not full:
        method = "replacement"
    return {"sampling_method": method, "stratified_sampling": strat}


def gen_fault(rnd, allow_interrupt=True):
    r = rnd.random()
    if allow_interrupt and r < 0.35:
        return {"kind": "interrupt", "frac": round(rnd.random(), 3), "exc": rnd.choice(["SimInterrupt", "SimInterrupt", "MemoryError"])}
    if r < 0.45:
        return {"kind": "interference", "at": rnd.randint(0, 8), "k": rnd.randint(1, 4)}
    f = {"kind": rnd.choice(DRAW_FAULTS[:13])}
    if rnd.random() < 0.5:
        f["at"] = rnd.randint(0, 10)
    else:
        f["every"] = rnd.choice([1, 1, 2, 3])
        f["offset"] = rnd.randint(0, 3)
    return f


def generate(rnd, tier):
    big = rnd.random() < 0.12
    n_obj = 1 if rnd.random() < 0.8 else 2
    objects = [gen_gs(rnd, big) for _ in range(n_obj)]
    fault_free = rnd.random() < 0.34
    ops = []
    pool = n_obj
    fulls = []
    for o in objects:
        labs = all_labels(o)
        fulls.append(all(l in o["pos_groups"] and l in o["neg_groups"] for l in labs) and "group_names" not in o)
    for _ in range(rnd.randint(4, 10 if big else 24)):
        oi = rnd.randrange(pool)
        r = rnd.random()
        op = None
        if r < 0.19:
            op = {"op": "getitem", "obj": oi, "which": rnd.randrange(8)}
        elif r < 0.22:
            # caller-side history step: the object goes through copy / deepcopy / pickle (multiprocessing, caches)
            op = {"op": "copy", "obj": oi, "how": rnd.choice(["copy", "deepcopy", "pickle", "pickle"])}
            pool += 1
            fulls.append(fulls[oi] if oi < len(fulls) else False)
        elif r < 0.26:
            op = {"op": "getitem_unknown", "obj": oi}
        elif r < 0.40:
            op = {"op": "group_cm", "obj": oi, "thr": gen_thr(rnd)}
        elif r < 0.52:
            op = {"op": "group_metric", "obj": oi, "name": rnd.choice(GROUP_METRICS), "thr": gen_thr(rnd)}
        elif r < 0.62:
            op = {"op": "groupwise", "obj": oi, "metric": rnd.choice(["fnr", "fpr", "tpr", "cm_flat", "n_hard", "threshold_at_fnr", "raising", "guarded_rate", "guarded_rate",
                                                                           "user_fnr", "user_far", "user_tpr"]),
                  "thr": gen_thr(rnd), "fail_at": rnd.randint(0, 4)}
        elif r < 0.68:
            op = {"op": "swap", "obj": oi}
            pool += 1
            fulls.append(False)
        elif r < 0.72:
            op = {"op": "reseed", "seed": rnd.randrange(2**31)}
        elif r < 0.93:
            full = fulls[oi] if oi < len(fulls) else False
            op = {"op": "sample", "obj": oi, "cfg": gen_cfg(rnd, big, full), "repeat": rnd.randint(1, 3 if big else 8),
                  "adopt": rnd.random() < 0.4}
            if op["adopt"]:
                pool += 1
                fulls.append(False)
        else:
            op = {"op": "bootstrap_metric", "obj": oi, "name": rnd.choice(GROUP_METRICS[:6]), "thr": gen_thr(rnd),
                  "cfg": dict(gen_cfg(rnd, big, fulls[oi] if oi < len(fulls) else False), nb_samples=rnd.randint(1, 6))}
        if not fault_free and op["op"] in ("getitem", "group_cm", "group_metric", "groupwise", "sample", "bootstrap_metric") \
                and rnd.random() < 0.45:
            op["faults"] = [gen_fault(rnd, True) for _ in range(rnd.choice([1, 1, 2]))]
        ops.append(op)
    if rnd.random() < 0.02:
        # a missing score (NaN) in the data: what a threshold comparison means for it is open, but which label it and its
        # neighbours carry is not - labels stay attached through sorting, and a group is the rows with that label
        o_ = gen_gs(rnd, False)
        o_.pop("perm", None)
        o_["via"], o_["dtype"], o_["swaps"] = "init", "float64", 0
        o_.pop("container", None)
        for key in ("pos", "neg"):
            if len(o_[key]) >= 2 and rnd.random() < 0.7:
                o_[key] = [float(v) for v in o_[key]]
                o_[key][rnd.randrange(len(o_[key]) - 1)] = float("nan")
        objects = [o_]
        ops = [{"op": "getitem", "obj": 0, "which": rnd.randrange(8)} for _ in range(rnd.randint(2, 5))]
    return {"np_seed": rnd.randrange(2**31), "objects": objects, "ops": ops}


# --------------------------------------------------------------------------
# history-free model


class Model:
    """Pairs (score, label) per class, flags and group-name list."""

    def __init__(self, P, N, sc, ec, groups):
        self.P, self.N, self.sc, self.ec, self.groups = P, N, sc, ec, groups

    @staticmethod
    def from_spec(spec):
        P = list(zip(spec["pos"], spec["pos_groups"]))
        N = list(zip(spec["neg"], spec["neg_groups"]))
        names = spec.get("group_names")
        groups = list(names) if names is not None and spec.get("via", "init") == "init" else sorted(set(spec["pos_groups"]) | set(spec["neg_groups"]))
        m = Model(P, N, spec.get("score_class", "pos"), spec.get("equal_class", "pos"), groups)
        for _ in range(int(spec.get("swaps", 0))):
            m = m.swapped()
        return m

    def swapped(self):
        flip = {"pos": "neg", "neg": "pos"}
        return Model(list(self.N), list(self.P), flip[self.sc], flip[self.ec], sorted({g for _, g in self.P} | {g for _, g in self.N}))

    @staticmethod
    def from_object(o):
        return Model(list(zip(o.pos.tolist(), o.pos_groups.tolist())), list(zip(o.neg.tolist(), o.neg_groups.tolist())),
                     o.score_class.value, o.equal_class.value, o.groups.tolist())

    def rows(self, g):
        return (np.sort(np.asarray([s for s, l in self.P if l == g], dtype=float)),
                np.sort(np.asarray([s for s, l in self.N if l == g], dtype=float)))

    def build_twin(self, spec_dtype="float64", gdtype="str"):  # noqa: D401 - line-count twin only
        L = lib()
        gd = str if gdtype == "str" else np.int64
        pos = np.asarray([s for s, _ in self.P], dtype=spec_dtype)
        neg = np.asarray([s for s, _ in self.N], dtype=spec_dtype)
        pg = np.asarray([l for _, l in self.P], dtype=gd) if self.P else np.asarray([], dtype="<U1" if gdtype == "str" else np.int64)
        ng = np.asarray([l for _, l in self.N], dtype=gd) if self.N else np.asarray([], dtype="<U1" if gdtype == "str" else np.int64)
        return L.GroupScores(pos, neg, pos_groups=pg, neg_groups=ng, score_class=self.sc, equal_class=self.ec,
                             group_names=np.asarray(self.groups, dtype=gd) if self.groups else None)


def pair_counter(scores, labels):
    from collections import Counter

    sc_ = ["nan" if isinstance(v, float) and v != v else v for v in np.asarray(scores).tolist()]  # NaN is one value here
    return Counter(zip(sc_, np.asarray(labels).tolist()))


def thr_array(t):
    a = np.asarray(t["data"], dtype=float).reshape(t["shape"])
    return a


def ref_rate(name, cmat):
    """cmat (..., 2, 2) int -> float array by the textbook formula, NaN on 0 denominator."""
    tp, fn, fp, tn = (cmat[..., 0, 0].astype(float), cmat[..., 0, 1].astype(float), cmat[..., 1, 0].astype(float), cmat[..., 1, 1].astype(float))
    num, den = {
        "tpr": (tp, tp + fn), "fnr": (fn, tp + fn), "tnr": (tn, tn + fp), "fpr": (fp, tn + fp),
        "topr": (tp + fp, tp + fn + fp + tn), "tonr": (fn + tn, tp + fn + fp + tn),
    }[name]
    out = np.full(den.shape, np.nan)
    np.divide(num, den, out=out, where=den != 0)
    return out


def count_group_cm(model, thr):
    """(G, *T, 2, 2) by direct counting."""
    G = len(model.groups)
    t = np.asarray(thr, dtype=float)
    out = np.zeros((G,) + t.shape + (2, 2), dtype=np.int64)
    flat = t.reshape(-1)
    for k, g in enumerate(model.groups):
        p, n = model.rows(g)
        for j, tv in enumerate(flat):
            out[k].reshape(-1, 2, 2)[j] = M.count_cm(p, n, tv, model.sc, model.ec)
    return out


def effective(cfg, o):
    m = cfg["sampling_method"]
    if m != "dynamic":
        return m
    if cfg.get("stratified_sampling") == "by_group":
        return "replacement"
    lo = min(len(o.pos), len(o.neg))
    return "replacement" if lo < 100 else "open" if lo == 100 else "single_pass"


# --------------------------------------------------------------------------
# checks


def audit(o, model, viol, tags, where, full=True):
    """Black-box coherence of one GroupScores object against its model."""
    def bad(name, detail):
        viol.append({"invariant": f"C12.{name}", "detail": f"{detail} [{where}]", "tags": tags})

    has_nan = bool(np.isnan(np.asarray(o.pos, dtype=float)).any() or np.isnan(np.asarray(o.neg, dtype=float)).any())
    if not has_nan and not (M.is_sorted(o.pos) and M.is_sorted(o.neg)):
        bad("sorted", "scores are not sorted")
    if len(o.pos) != len(o.pos_groups) or len(o.neg) != len(o.neg_groups):
        bad("pairs", "score and label arrays differ in length")
        return
    if pair_counter(o.pos, o.pos_groups) != pair_counter(*zip(*model.P)) if model.P else len(o.pos) != 0:
        bad("pairs", "multiset of (positive score, label) pairs differs from the data given")
    if pair_counter(o.neg, o.neg_groups) != pair_counter(*zip(*model.N)) if model.N else len(o.neg) != 0:
        bad("pairs", "multiset of (negative score, label) pairs differs from the data given")
    if o.groups.tolist() != list(model.groups):
        bad("group_names", f"groups {o.groups.tolist()} != expected {list(model.groups)}")
    if (o.score_class.value, o.equal_class.value) != (model.sc, model.ec):
        bad("flags", f"flags {(o.score_class.value, o.equal_class.value)} != {(model.sc, model.ec)}")
    if full:
        for g in model.groups:
            check_getitem(o, model, g, viol, tags, where)


def check_getitem(o, model, g, viol, tags, where, value=None):
    L = lib()
    try:
        s = o[g] if value is None else value
    except Exception as e:  # noqa: BLE001
        viol.append({"invariant": "C12.getitem", "detail": f"gs[{g!r}] raised {type(e).__name__}: {e} [{where}]", "tags": tags})
        return
    p, n = model.rows(g)
    okp = isinstance(s, L.Scores) and np.array_equal(np.asarray(s.pos, dtype=float), p, equal_nan=True)
    okn = isinstance(s, L.Scores) and np.array_equal(np.asarray(s.neg, dtype=float), n, equal_nan=True)
    if not (okp and okn):
        viol.append({"invariant": "C12.getitem", "tags": tags,
                     "detail": f"gs[{g!r}] has pos={getattr(s, 'pos', None)!r} neg={getattr(s, 'neg', None)!r}; rows labelled {g!r} are pos={p!r} neg={n!r} [{where}]"})
        return
    if (s.score_class.value, s.equal_class.value) != (model.sc, model.ec) or s.nb_easy_pos != 0 or s.nb_easy_neg != 0:
        viol.append({"invariant": "C12.getitem", "detail": f"gs[{g!r}] has wrong flags or easy counts [{where}]", "tags": tags})


def check_sample(src, src_model, cfg, eff, s, viol, tags, where):
    L = lib()

    def bad(name, detail):
        viol.append({"invariant": f"C12.{name}", "detail": f"{detail} [{where}]", "tags": tags})

    if not isinstance(s, L.GroupScores):
        bad("sample_type", f"sample is {type(s).__name__}")
        return None
    if s.groups.tolist() != src.groups.tolist():
        bad("sample_groups", f"sample.groups {s.groups.tolist()} != source.groups {src.groups.tolist()}")
    if (s.score_class, s.equal_class) != (src.score_class, src.equal_class):
        bad("flags", "sample flags differ from the source's")
    if len(s.pos) != len(s.pos_groups) or len(s.neg) != len(s.neg_groups):
        bad("pairs", "sample score and label arrays differ in length")
        return None
    if not (M.is_sorted(s.pos) and M.is_sorted(s.neg)):
        bad("sorted", "sample scores are not sorted")
    sp = set(src_model.P)
    sn = set(src_model.N)
    for sc_, lb in zip(s.pos.tolist(), s.pos_groups.tolist()):
        if (sc_, lb) not in sp:
            bad("sample_pairs", f"sample positive ({sc_!r}, {lb!r}) is not a (score, label) pair of the source")
            break
    for sc_, lb in zip(s.neg.tolist(), s.neg_groups.tolist()):
        if (sc_, lb) not in sn:
            bad("sample_pairs", f"sample negative ({sc_!r}, {lb!r}) is not a (score, label) pair of the source")
            break
    strat = cfg.get("stratified_sampling")
    if eff == "replacement":
        if len(s.pos) + len(s.neg) != len(src.pos) + len(src.neg):
            bad("total_preserved", f"replacement sample has {len(s.pos) + len(s.neg)} scores, source {len(src.pos) + len(src.neg)}")
        if strat == "by_label" and (len(s.pos), len(s.neg)) != (len(src.pos), len(src.neg)):
            bad("by_label_counts", f"class counts {(len(s.pos), len(s.neg))} != source {(len(src.pos), len(src.neg))}")
        if strat == "by_group":
            for g in src_model.groups:
                a = int(np.sum(s.pos_groups == g)) + int(np.sum(s.neg_groups == g)) if len(s.pos_groups) + len(s.neg_groups) else 0
                b = sum(1 for _, l in src_model.P if l == g) + sum(1 for _, l in src_model.N if l == g)
                if a != b:
                    bad("by_group_counts", f"group {g!r}: sample has {a} scores, source {b}")
                    break
    return Model.from_object(s)


# --------------------------------------------------------------------------
# execution


class GroupCallbackFault(Exception):
    pass


def _raising_metric(k_fail, box):
    def metric(s, threshold):
        box["calls"] = box.get("calls", 0) + 1
        if box["calls"] - 1 == k_fail:
            box["raised"] = True
            raise GroupCallbackFault(f"planned failure of the metric on group call {k_fail}")
        return np.asarray(s.fnr(threshold))
    return metric


def _metric_callable(name):
    if name == "cm_flat":
        return lambda s, threshold: np.asarray(s.cm(threshold)).reshape(np.shape(threshold) + (4,))
    if name == "n_hard":
        return lambda s, threshold: np.asarray([s.nb_hard_pos, s.nb_hard_neg])
    if name in ("user_fnr", "user_far", "user_tpr"):
        # the user's own function that happens to carry the name of a built-in metric (a smoothed rate, a count)
        base = name[5:]
        lib_name = {"far": "fpr"}.get(base, base)

        def user_metric(s, threshold):
            return 0.5 * np.asarray(getattr(type(s), lib_name)(s, threshold), dtype=float) + 0.125

        user_metric.__name__ = user_metric.__qualname__ = base
        return user_metric
    if name == "guarded_rate":
        # a guard that returns a Python int for a group without positives and a float rate otherwise
        return lambda s, threshold: 0 if s.nb_all_pos == 0 else float(np.mean(np.asarray(s.fnr(threshold), dtype=float))) + 0.25
    return name


def execute(scn, ctx):
    if scn.get("stat"):
        return execute_stat(scn, ctx)
    L = lib()
    seam = ctx.seam
    seam.seed(scn["np_seed"])
    pool, models, gdt, callers = [], [], [], []
    viol, trace, sig = [], [], []
    probes, faults = {}, {}
    n_draws = n_forced = n_lines = 0
    states = set()

    def probe(name, k=1):
        probes[name] = probes.get(name, 0) + k

    for spec in scn["objects"]:
        o, c = M.build_group_scores(spec)
        pool.append(o)
        callers.append((c, c.fp0))
        models.append(Model.from_spec(spec))
        gdt.append(spec.get("gdtype", "str"))
        if spec.get("group_names") is not None:
            probe("explicit_group_names")
        if spec.get("gdtype") == "int":
            probe("int_labels")
        labs = all_labels(spec)
        if any(l not in spec["pos_groups"] or l not in spec["neg_groups"] for l in labs):
            probe("group_without_class")
        seen_lab = {}
        for sc_, lb in list(zip(spec["pos"], spec["pos_groups"])) + list(zip(spec["neg"], spec["neg_groups"])):
            seen_lab.setdefault(sc_, set()).add(lb)
        if any(len(v) > 1 for v in seen_lab.values()):
            probe("ties_across_groups")
        audit(o, models[-1], viol, {"phase": "construction"}, "after construction", full=False)

    touched = set()
    held = []  # results handed out earlier (group Scores, matrices, samples): later calls must not change them

    def hold(step_, what, value):
        held.append((step_, what, value, M.canon(value)))
        if len(held) > 5:
            held.pop(0)

    for step, op in enumerate(scn["ops"]):
        kind = op["op"]
        for hv in list(held):
            if M.canon(hv[2]) != hv[3]:
                viol.append({"invariant": "C12.result_stable", "tags": {"op": kind},
                             "detail": f"the result of {hv[1]} at op {hv[0]} was changed by later calls (before op {step})"})
                held.remove(hv)
        if kind == "reseed":
            seam.seed(op["seed"])
            trace.append([step, "reseed"])
            sig.append("reseed")
            continue
        oi = op["obj"] % len(pool)
        o, model = pool[oi], models[oi]
        if not model.groups:
            continue  # quantifier: 1..G groups
        fp_before = M.fingerprint(o)
        tags = {"op": kind}
        fl = op.get("faults")
        twin = None

        def mk_twin():
            return model.build_twin(gdtype=gdt[oi])

        outcome = "ok"
        fired_kinds = []
        res = None
        if kind == "getitem":
            if not model.groups:
                continue
            g = model.groups[op["which"] % len(model.groups)]
            warm = (id(o), repr(g)) in touched  # own bookkeeping: the library's cache is its private business
            touched.add((id(o), repr(g)))
            probe("cache_hit" if warm else "cache_fill")
            if fl:
                twin = mk_twin()
            res = run_op(ctx, lambda: o[g], fl, (lambda: twin[g]) if fl else None)
            if res["ok"]:
                check_getitem(o, model, g, viol, tags, f"op {step}", value=res["value"])
            elif not res["interrupted"]:
                viol.append({"invariant": "C12.getitem", "detail": f"gs[{g!r}] raised {type(res['value']).__name__}: {res['value']} [op {step}]", "tags": tags})
        elif kind == "getitem_unknown":
            unknown = "no-such-group" if gdt[oi] == "str" else 987654
            try:
                o[unknown]
                viol.append({"invariant": "C12.getitem", "detail": f"gs[{unknown!r}] did not raise for an unknown group [op {step}]", "tags": tags})
            except ValueError:
                pass
            except Exception as e:  # noqa: BLE001
                viol.append({"invariant": "C12.getitem", "detail": f"gs[{unknown!r}] raised {type(e).__name__}, documented ValueError [op {step}]", "tags": tags})
        elif kind in ("group_cm", "group_metric"):
            t = thr_array(op["thr"])
            t_fp = M.fingerprint(t)
            if fl:
                twin = mk_twin()
            name = "group_cm" if kind == "group_cm" else op["name"]
            tags["name"] = name
            res = run_op(ctx, lambda: getattr(o, name)(t), fl, (lambda: getattr(twin, name)(t)) if fl else None)
            if M.fingerprint(t) != t_fp:
                viol.append({"invariant": "C12.source_unchanged", "detail": f"{name} modified the caller's threshold array [op {step}]", "tags": tags})
            if res["ok"]:
                exp_cm = count_group_cm(model, t)
                if kind == "group_cm":
                    got = np.asarray(res["value"].matrix) if isinstance(res["value"], L.ConfusionMatrix) else None
                    if got is None or got.shape != exp_cm.shape or not np.array_equal(got, exp_cm):
                        viol.append({"invariant": "C12.group_cm", "tags": tags,
                                     "detail": f"group_cm({t.tolist()}) = {None if got is None else got.tolist()} but counting the rows of each group gives {exp_cm.tolist()} [op {step}]"})
                    else:
                        try:
                            tot = np.asarray(o.cm(t).matrix)
                            if not np.array_equal(got.sum(axis=0), tot):
                                viol.append({"invariant": "C12.partition", "tags": tags,
                                             "detail": f"sum over groups of group_cm = {got.sum(axis=0).tolist()} != cm = {tot.tolist()} at {t.tolist()} [op {step}]"})
                        except Exception as e:  # noqa: BLE001
                            viol.append({"invariant": "C12.partition", "detail": f"cm raised {type(e).__name__} [op {step}]", "tags": tags})
                else:
                    base = _BASE.get(name, name)[len("group_"):]
                    exp = ref_rate(base, exp_cm)
                    got = np.asarray(res["value"], dtype=float)
                    if got.shape != exp.shape or not M.close(got, exp, 1e-12):
                        viol.append({"invariant": "C12.group_metric", "tags": tags,
                                     "detail": f"{name}({t.tolist()}) = {got.tolist()} but the metric of each group's rows is {exp.tolist()} [op {step}]"})
            elif not res["interrupted"]:
                viol.append({"invariant": "C12.group_cm", "detail": f"{name} raised {type(res['value']).__name__}: {res['value']} [op {step}]", "tags": tags})
        elif kind == "groupwise":
            t = thr_array(op["thr"])
            mname = op["metric"]
            tags["metric"] = mname
            metric = _metric_callable(mname)
            cbbox = {}
            if mname == "raising":
                metric = _raising_metric(op.get("fail_at", 0), cbbox)
            if mname == "threshold_at_fnr":
                kw = {"fnr": np.clip(np.abs(t) / 6.0, 0, 1)}
            else:
                kw = {"threshold": t}
            ok_inputs = mname != "raising"
            exp = []
            for g in (model.groups if ok_inputs else []):
                p, n = model.rows(g)
                fresh = L.Scores(p, n, score_class=model.sc, equal_class=model.ec)
                try:
                    f = getattr(L.Scores, metric) if isinstance(metric, str) else metric
                    exp.append(np.asarray(f(fresh, **kw)))
                except Exception:  # noqa: BLE001 - metric undefined for this group (e.g. no positives)
                    ok_inputs = False
                    break
            if mname == "raising":
                ok_inputs = False  # the call is expected to fail (or, past the last group, to succeed); no value oracle
            if fl:
                twin = mk_twin()
            gw = L.groupwise(metric)
            twin_metric = _raising_metric(op.get("fail_at", 0), {}) if mname == "raising" else metric  # own call counter
            res = run_op(ctx, lambda: gw(o, **kw), fl, (lambda: L.groupwise(twin_metric)(twin, **kw)) if fl else None)
            if res["ok"] and ok_inputs and model.groups:
                e = np.stack(exp, axis=0)
                got = np.asarray(res["value"])
                # (== semantics: the library's and the model's order of -0.0 / 0.0 among tied scores may differ)
                if got.shape != e.shape or not np.array_equal(np.asarray(got, dtype=float), np.asarray(e, dtype=float), equal_nan=True):
                    viol.append({"invariant": "C12.groupwise", "tags": tags,
                                 "detail": f"groupwise({mname}) = {got.tolist()} but the metric applied group by group gives {e.tolist()} [op {step}]"})
            elif not res["ok"] and ok_inputs and model.groups and not res["interrupted"]:
                viol.append({"invariant": "C12.groupwise", "detail": f"groupwise({mname}) raised {type(res['value']).__name__}: {res['value']} [op {step}]", "tags": tags})
            if mname == "raising" and cbbox.get("raised"):
                fired_kinds.append("callback_raise")
                faults["callback_raise"] = faults.get("callback_raise", 0) + 1
                if res["ok"]:
                    viol.append({"invariant": "C12.groupwise", "tags": tags,
                                 "detail": f"the metric raised on one group but groupwise returned a value (exception swallowed) [op {step}]"})
        elif kind == "swap":
            probe("swap")
            try:
                s = o.swap()
                sm = model.swapped()
                pool.append(s)
                models.append(sm)
                gdt.append(gdt[oi])
                callers.append(({}, M.fingerprint([])))
                audit(s, sm, viol, tags, f"swap at op {step}")
            except Exception as e:  # noqa: BLE001
                viol.append({"invariant": "C12.pairs", "detail": f"swap raised {type(e).__name__}: {e} [op {step}]", "tags": tags})
                pool.append(o)
                models.append(model)
                gdt.append(gdt[oi])
                callers.append(({}, M.fingerprint([])))
        elif kind == "copy":
            probe("copy_" + op["how"])
            import copy as _copy
            import pickle as _pickle
            try:
                if op["how"] == "copy":
                    s = _copy.copy(o)
                elif op["how"] == "deepcopy":
                    s = _copy.deepcopy(o)
                else:
                    s = _pickle.loads(_pickle.dumps(o, protocol=op.get("protocol", _pickle.HIGHEST_PROTOCOL)))
                audit(s, model, viol, dict(tags, how=op["how"]), f"{op['how']} round trip at op {step}")
            except Exception as e:  # noqa: BLE001
                viol.append({"invariant": "C12.pairs", "detail": f"{op['how']} round trip raised {type(e).__name__}: {e} [op {step}]", "tags": dict(tags, how=op["how"])})
                s = o
            pool.append(s)
            models.append(model)
            gdt.append(gdt[oi])
            callers.append(({}, M.fingerprint([])))
        elif kind == "sample":
            cfg = op["cfg"]
            eff = effective(cfg, o)
            tags.update({"method": cfg["sampling_method"], "strat": cfg.get("stratified_sampling"), "effective": eff})
            config = M.build_config(cfg)
            by_group = cfg.get("stratified_sampling") == "by_group"
            if by_group:
                probe("by_group")
            if eff == "single_pass":
                probe("single_pass")
            lacking = any(len(model.rows(g)[0]) == 0 or len(model.rows(g)[1]) == 0 for g in model.groups)
            outside = (len(o.pos) == 0 or len(o.neg) == 0) or (by_group and lacking)
            adopted = None
            h = hashlib.sha1()
            for rep in range(int(op.get("repeat", 1))):
                if fl and any(f["kind"] == "interrupt" for f in fl):
                    twin = mk_twin()
                res = run_op(ctx, lambda: o.bootstrap_sample(config), fl, (lambda: twin.bootstrap_sample(config)) if twin is not None else None)
                n_draws += res["draws"]
                n_lines += res["line_events"]
                for _, kd in res["fired"]:
                    faults[kd] = faults.get(kd, 0) + 1
                    fired_kinds.append(kd)
                    n_forced += kd != "interference"
                if res["interrupted"]:
                    faults["interrupt"] = faults.get("interrupt", 0) + 1
                    fired_kinds.append("interrupt")
                    probe("interrupt_fired")
                    outcome = "interrupted"
                    continue
                if not res["ok"]:
                    outcome = "raise:" + type(res["value"]).__name__
                    if not outside:
                        viol.append({"invariant": "C12.sample_raises", "tags": tags,
                                     "detail": f"bootstrap_sample raised {type(res['value']).__name__}: {res['value']} [op {step} rep {rep}]"})
                    break
                s = res["value"]
                m2 = check_sample(o, model, cfg, eff if not outside else "outside", s, viol, tags, f"op {step} rep {rep}")
                if m2 is not None:
                    h.update(json.dumps(M.fingerprint(s), default=str).encode())
                    present = set(s.pos_groups.tolist()) | set(s.neg_groups.tolist())
                    if any(g not in present for g in model.groups):
                        probe("group_missing_in_sample")
                    # the sample is a GroupScores in its own right: its own view must be coherent
                    audit(s, m2, viol, tags, f"sample of op {step} rep {rep}", full=rep == 0)
                    adopted = (s, m2)
                    hold(step, "bootstrap_sample", s)
            res = None
            if op.get("adopt"):
                if adopted is not None:
                    probe("adopted_sample")
                    pool.append(adopted[0])
                    models.append(adopted[1])
                else:
                    pool.append(o)
                    models.append(model)
                gdt.append(gdt[oi])
                callers.append(({}, M.fingerprint([])))
            trace.append([step, "sample-digest", h.hexdigest()[:16]])
        elif kind == "bootstrap_metric":
            cfg = op["cfg"]
            t = thr_array(op["thr"])
            config = M.build_config(cfg)
            tags.update({"name": op["name"], "method": cfg["sampling_method"], "strat": cfg.get("stratified_sampling")})
            lacking = any(len(model.rows(g)[0]) == 0 or len(model.rows(g)[1]) == 0 for g in model.groups)
            outside = (len(o.pos) == 0 or len(o.neg) == 0) or (cfg.get("stratified_sampling") == "by_group" and lacking)
            if fl and any(f["kind"] == "interrupt" for f in fl):
                twin = mk_twin()
            res = run_op(ctx, lambda: o.bootstrap_metric(op["name"], config=config, threshold=t), fl,
                         (lambda: twin.bootstrap_metric(op["name"], config=config, threshold=t)) if twin is not None else None)
            if res["ok"]:
                shp = (int(cfg["nb_samples"]), len(model.groups)) + t.shape
                got = np.asarray(res["value"])
                if got.shape != shp:
                    viol.append({"invariant": "C12.bootstrap_metric_shape", "tags": tags,
                                 "detail": f"bootstrap_metric({op['name']}) has shape {got.shape}, expected (nb_samples, G, *T) = {shp} [op {step}]"})
            elif not res["interrupted"] and not outside:
                viol.append({"invariant": "C12.sample_raises", "tags": tags,
                             "detail": f"bootstrap_metric({op['name']}) raised {type(res['value']).__name__}: {res['value']} [op {step}]"})
        # ---- bookkeeping common to all ops
        if res is not None and res["ok"]:
            hold(step, kind, res["value"])
        if res is not None:
            n_draws += res["draws"]
            n_lines += res["line_events"]
            for _, kd in res["fired"]:
                faults[kd] = faults.get(kd, 0) + 1
                fired_kinds.append(kd)
                n_forced += kd != "interference"
            if res["interrupted"]:
                faults["interrupt"] = faults.get("interrupt", 0) + 1
                fired_kinds.append("interrupt")
                probe("interrupt_fired")
                outcome = "interrupted"
            elif not res["ok"]:
                outcome = "raise:" + type(res["value"]).__name__
        if M.fingerprint(o) != fp_before:
            viol.append({"invariant": "C12.source_unchanged", "detail": f"{kind} changed the object's arrays/flags [op {step}]", "tags": tags})
        c, cfp = callers[oi]
        if c and M.fingerprint(list(c.values())) != cfp:
            viol.append({"invariant": "C12.source_unchanged", "detail": f"{kind} changed caller-supplied arrays [op {step}]", "tags": tags})
        # cache coherence after any faulted operation, black-box
        if fired_kinds:
            audit(o, model, viol, tags, f"audit after faulted op {step}")
        trace.append([step, kind, oi, {k: v for k, v in tags.items()}, sorted(set(fired_kinds)), outcome,
                      M.digest(M.canon(res["value"]))[:12] if res is not None and res["ok"] else None])
        sig.append(f"{kind}|{tags.get('name', tags.get('metric', ''))}|{tags.get('method', '')}|{tags.get('strat', '')}|{','.join(sorted(set(fired_kinds)))}|{outcome}")
        states.add(f"{len(model.groups)}g|{gdt[oi]}|{kind}|{tags.get('method', '')}|{tags.get('strat', '')}|{model.sc}{model.ec}")
    # final audit of every pool member: whatever the history, the view must be coherent
    for k, (o, model) in enumerate(zip(pool, models)):
        audit(o, model, viol, {"phase": "final"}, f"final audit of pool[{k}]")
    seen, out = set(), []
    for x in viol:
        key = (x["invariant"], json.dumps(x.get("tags", {}), sort_keys=True))
        if key not in seen:
            seen.add(key)
            out.append(x)
    return {
        "violations": out, "trace": trace,
        "stats": {"ops": len(scn["ops"]), "draws": n_draws, "forced": n_forced, "line_events": n_lines, "faults": faults, "probes": probes},
        "signature": hashlib.sha1("\n".join(sig).encode()).hexdigest(),
        "nontrivial": len(scn["ops"]) >= 2 or bool(faults),
        "states": sorted(states),
    }


# --------------------------------------------------------------------------
# distributional oracle

STAT_COMBOS = [("replacement", None), ("replacement", "by_group"), ("replacement", "by_label"), ("single_pass", None),
               ("single_pass", "by_group"), ("single_pass", "by_label"), ("dynamic", None), ("dynamic", "by_group")]


def stat_scenario(verif_seed, j, tier):
    import random

    from ..runner import run_seed

    rnd = random.Random(run_seed(verif_seed, "C12-stat", j))
    method, strat = STAT_COMBOS[j % len(STAT_COMBOS)]
    labels = ["a", "b_1", "c"]
    sizes_p = [rnd.randint(105, 160), rnd.randint(40, 100), rnd.randint(30, 60)]
    sizes_n = [rnd.randint(30, 60), rnd.randint(105, 160), rnd.randint(40, 100)]
    pg = [l for l, k in zip(labels, sizes_p) for _ in range(k)]
    ng = [l for l, k in zip(labels, sizes_n) for _ in range(k)]
    rnd.shuffle(pg)
    rnd.shuffle(ng)
    spec = {"pos": gen_values(rnd, len(pg), "unique", -3, 6), "neg": gen_values(rnd, len(ng), "unique", -6, 3),
            "pos_groups": pg, "neg_groups": ng, "gdtype": "str", "dtype": "float64",
            "score_class": rnd.choice(["pos", "neg"]), "equal_class": rnd.choice(["pos", "neg"]), "via": "init"}
    return {"stat": True, "np_seed": rnd.randrange(2**31), "object": spec,
            "cfg": {"sampling_method": method, "stratified_sampling": strat}, "M": TIERS[tier]["stat_M"]}


def execute_stat(scn, ctx):
    seam = ctx.seam
    seam.seed(scn["np_seed"])
    seam.begin_op([])
    o, _ = M.build_group_scores(scn["object"])
    cfg = scn["cfg"]
    config = M.build_config(cfg)
    Mn = int(scn["M"])
    R = 6
    up, un = np.asarray(o.pos), np.asarray(o.neg)
    lp, ln = np.asarray(o.pos_groups), np.asarray(o.neg_groups)
    groups = o.groups.tolist()
    cp = np.zeros((Mn, len(up)), dtype=np.int8)
    cn = np.zeros((Mn, len(un)), dtype=np.int8)
    gsz = np.zeros((Mn, 2 * len(groups)))
    tags = {"method": cfg["sampling_method"], "strat": cfg.get("stratified_sampling"), "stat": True}
    viol = []
    for i in range(Mn):
        try:
            s = o.bootstrap_sample(config)
        except Exception as e:  # noqa: BLE001
            info = seam.end_op()
            return {"violations": [{"invariant": "C12.sample_raises", "tags": tags,
                                    "detail": f"bootstrap_sample raised {type(e).__name__}: {e} (distribution scenario, sample {i})"}],
                    "trace": [["stat", tags, i, "raised"]], "stats": {"ops": i, "draws": info["draws"], "forced": 0, "faults": {}, "probes": {}},
                    "signature": "stat-raised", "nontrivial": True, "states": []}
        ip = np.searchsorted(up, s.pos)
        ineg = np.searchsorted(un, s.neg)
        if not (np.array_equal(lp[ip], s.pos_groups) and np.array_equal(ln[ineg], s.neg_groups)) and not viol:
            viol.append({"invariant": "C12.sample_pairs", "tags": tags, "detail": f"sample {i}: a label differs from the source's label of the same score"})
        cp[i] = np.minimum(np.bincount(ip, minlength=len(up))[: len(up)], R)
        cn[i] = np.minimum(np.bincount(ineg, minlength=len(un))[: len(un)], R)
        for k, g in enumerate(groups):
            gsz[i, 2 * k] = np.sum(s.pos_groups == g)
            gsz[i, 2 * k + 1] = np.sum(s.neg_groups == g)
    info = seam.end_op()
    n_tests = 0
    for nm, c in (("pos", cp), ("neg", cn)):
        reach = c.max(axis=0) > 0
        if not reach.all():
            viol.append({"invariant": "C12.unbiased", "tags": tags, "detail": f"{nm} score #{int(np.argmin(reach))} never drawn in {Mn} samples"})
        ok, m, tol = ST.mean_test(c.astype(float), np.ones(c.shape[1]), float(R), slack=1e-3)
        n_tests += c.shape[1]
        if not ok.all():
            w = int(np.argmax(np.abs(m - 1) - tol))
            viol.append({"invariant": "C12.unbiased", "tags": tags,
                         "detail": f"{nm} score #{w}: mean multiplicity {m[w]:.4f}, expected 1 +- {tol[w]:.4f} (M={Mn})"})
    exp = np.array([x for g in groups for x in (np.sum(lp == g), np.sum(ln == g))], dtype=float)
    cap = 2 * (len(up) + len(un)) + 50
    ok, m, tol = ST.mean_test(np.minimum(gsz, cap), exp, float(cap))
    n_tests += len(exp)
    if not ok.all():
        w = int(np.argmin(ok))
        viol.append({"invariant": "C12.unbiased", "tags": tags,
                     "detail": f"mean per-group (pos, neg) sizes {np.round(m, 2).tolist()} vs source {exp.tolist()} tolerance {np.round(tol, 2).tolist()} (M={Mn}); component {w} off"})
    trace = [["stat", tags, Mn, hashlib.sha1(cp.tobytes() + cn.tobytes() + gsz.tobytes()).hexdigest()[:16]]]
    return {"violations": viol, "trace": trace,
            "stats": {"ops": Mn, "draws": info["draws"], "forced": 0, "faults": {}, "probes": {}, "stat_tests": n_tests},
            "signature": hashlib.sha1(json.dumps([tags, len(up), len(un)]).encode()).hexdigest(), "nontrivial": True,
            "states": [f"stat|{tags['method']}|{tags['strat']}"]}


# --------------------------------------------------------------------------
# minimisation


def _remap_after_drop(ops, i_dropped):
    """Pool indices are positional (swap/adopt append): when such an op is dropped,
    later references may shift.  `obj % len(pool)` keeps every candidate executable;
    the minimiser only keeps candidates that still fail the same invariant."""
    return ops


def shrink(scn):
    if scn.get("stat"):
        if scn["M"] > 2000:
            yield SH.with_path(scn, ["M"], max(2000, scn["M"] // 2))
        return
    ops = scn["ops"]
    for cand in SH.drop_chunks(ops, min_len=0):
        yield SH.with_path(scn, ["ops"], cand)
    for i, op in enumerate(ops):
        if op.get("faults"):
            for cand in SH.drop_chunks(op["faults"]):
                yield SH.with_path(scn, ["ops", i, "faults"], cand)
        if op.get("repeat", 1) > 1:
            for r in SH.shrink_int(op["repeat"], lo=1):
                yield SH.with_path(scn, ["ops", i, "repeat"], r)
        if op.get("thr") and op["thr"]["shape"] != []:
            yield SH.with_path(scn, ["ops", i, "thr"], {"shape": [], "data": op["thr"]["data"][:1] or [0.0]})
        if op.get("cfg", {}).get("stratified_sampling"):
            yield SH.with_path(scn, ["ops", i, "cfg", "stratified_sampling"], None)
    if len(scn["objects"]) > 1:
        for k in range(len(scn["objects"])):
            c = copy.deepcopy(scn)
            del c["objects"][k]
            yield c
    for oi, o in enumerate(scn["objects"]):
        for key, gkey in (("pos", "pos_groups"), ("neg", "neg_groups")):
            n = len(o[key])
            idx = list(range(n))
            for keep in SH.drop_chunks(idx, min_len=0):
                c = copy.deepcopy(scn)
                c["objects"][oi][key] = [o[key][k] for k in keep]
                c["objects"][oi][gkey] = [o[gkey][k] for k in keep]
                c["objects"][oi].pop("perm", None)
                if c["objects"][oi].get("via") == "from_labels":
                    c["objects"][oi]["via"] = "init"
                yield c
        if o.get("swaps"):
            yield SH.with_path(scn, ["objects", oi, "swaps"], 0)
        if o.get("presorted"):
            yield SH.with_path(scn, ["objects", oi, "presorted"], False)
        if o.get("via") == "from_labels":
            c = copy.deepcopy(scn)
            c["objects"][oi]["via"] = "init"
            c["objects"][oi].pop("perm", None)
            yield c
        if "group_names" in o:
            c = copy.deepcopy(scn)
            del c["objects"][oi]["group_names"]
            yield c
        for key in ("score_class", "equal_class"):
            if o.get(key) != "pos":
                yield SH.with_path(scn, ["objects", oi, key], "pos")
        for key in ("pos", "neg"):
            for cand in SH.simplify_numbers(o[key]):
                yield SH.with_path(scn, ["objects", oi, key], cand)


def sample_view(scn, res):
    return {"scenario": scn, "signature": res.get("signature"), "violations": [v["invariant"] for v in res["violations"]]}
