"""C11 - bootstrap samples are well-formed resamples of their source.

System: real Scores.bootstrap_sample under the RNG seam.  Workload: histories of
sampling calls under scheduled configurations, interleaved with queries and
reseeds.  Faults: forced-but-legal draw outcomes, stream interference, reseeds.
Oracle: per-sample exact invariants + distributional oracle (stat scenarios).
"""

import copy
import hashlib
import json

import numpy as np

from .. import model as M
from .. import shrink as SH
from .. import stats as ST
from ..boot import lib

ID = "C11"
DELTA = ST.DELTA

TIERS = {
    "quick": {"runs": 12000, "stat_jobs": 60, "stat_M": 20000, "selftest": 16, "budget_s": 240, "chunk": 150},
    "thorough": {"runs": 160000, "stat_jobs": 240, "stat_M": 100000, "selftest": 64, "budget_s": 1500, "chunk": 400},
}

RULE = (
    "run i is generated from SHA-256(VERIF_SEED:C11:i): 1-2 Scores sources (1-40 scores per class, or 90-110 around the "
    "dynamic switch, or 100-300; ties, integer dtype, values shared across classes, easy counts up to 50x, empty classes "
    "for replacement, 4 flag pairs, pre-sorted input) and 2-10 operations (bootstrap_sample x repeat under "
    "replacement/single_pass/dynamic/proportion/callable x None/by_label x smoothing, queries, reseeds) with 0-3 planned "
    "faults. A run is non-trivial if it produced >= 2 samples or fired >= 1 fault; distinct = distinct abstract trace "
    "signatures (sequence of op kind, sampling config, source size class, fault kinds fired, outcome class). "
    "stat scenarios: M samples from one source on the faithful seeded stream, empirical-Bernstein tests of per-value "
    "multiplicity, reachability, class and stratum sizes."
     " Later rounds added: float32/unsigned/mixed class dtypes, integers beyond 2**53, extreme magnitudes, containers (list/tuple/strided/Series), "
    "user subclasses with own constructors, copy/pickle of the source, very unequal classes, identical classes, sources of 33k-70k scores, positional / subclassed / reused configurations; "
    "stat variants: sparse proportion, tied sources, few scored next to many easy samples, independence tests."
)
COMPONENTS = {
    "real": ["score_analysis.scores.Scores (from /repo working tree)", "numpy global RandomState (faithful path)", "numpy", "scipy"],
    "stub": ["forced draw outcomes (RngSeam)", "foreign draws on the shared stream (interference)", "simulator-provided callable samplers"],
}
ASSUMPTIONS = [
    "successive outputs of the seeded MT19937 stream are treated as independent for the distributional oracle",
    "dynamic sampling with a class of exactly 100 scores is left open (code '<', documentation '>')",
    "exact stratum preservation is asserted for replacement sampling only (single-pass is documented not to guarantee counts); under single-pass + by_label the easy strata must be exact",
]
PROBES = [
    "unsigned_scores", "from_labels_source", "sample_of_sample", "source_copied", "documented_error", "extreme_class_draw", "extreme_easy_draw", "single_pass_binomial", "single_pass_poisson", "dynamic_to_single_pass",
    "dynamic_to_replacement", "empty_class_source", "smoothing", "proportion", "callable", "ties_in_source",
    "int_scores", "easy_samples", "presorted_source",
]

METHODS = ["replacement", "single_pass", "dynamic", "proportion", "callable"]
DRAW_FAULTS = [
    "binom_zero", "binom_all", "binom_one", "binom_allbutone", "mult_zeros", "mult_ones", "mult_onehot_first",
    "mult_onehot_last", "mult_alternating", "choice_first", "choice_last", "choice_cyclic", "choice_reversed",
    "subset_first", "subset_last", "subset_last_reversed", "normal_zeros", "normal_alternating",
]
_FN_OF = {"binom": "binomial", "mult": None, "choice": "choice", "subset": "choice", "normal": "normal"}


# --------------------------------------------------------------------------
# generation


def gen_values(rnd, n, style, lo=-5.0, hi=5.0):
    if style == "int":
        return [float(rnd.randint(-6, 6)) for _ in range(n)]
    if style == "ties":
        pool = [round(rnd.uniform(lo, hi), 1) for _ in range(max(1, n // 3 + 1))]
        return [rnd.choice(pool) for _ in range(n)]
    if style == "const":
        c = round(rnd.uniform(lo, hi), 2)
        return [c] * n
    vals = set()
    while len(vals) < n:
        vals.add(round(rnd.uniform(lo, hi), 6))
    out = list(vals)
    rnd.shuffle(out)
    return out


def gen_source(rnd, size_class, allow_empty, allow_extreme=True):
    if size_class == "giant":
        # tens of thousands of scores per class, heavily tied (two decimals): described by size and seed only
        lo, hi = rnd.choice([(33000, 40000), (66000, 70000), (2 ** 15, 2 ** 15), (2 ** 16, 2 ** 16 + 1)])
        return {"pos": [], "neg": [], "synth": {"n_pos": rnd.randint(lo, hi), "n_neg": rnd.randint(lo, hi), "seed": rnd.randrange(2 ** 31),
                                                "decimals": rnd.choice([1, 2, 6])},
                "dtype": rnd.choice(["float64", "float64", "float32"]), "nb_easy_pos": rnd.choice([0, 0, 40000]), "nb_easy_neg": rnd.choice([0, 0, 70000]),
                "score_class": rnd.choice(["pos", "neg"]), "equal_class": rnd.choice(["pos", "neg"]), "presorted": False,
                "size_class": "giant", "style": "giant"}
    if size_class == "tiny":
        npos, nneg = rnd.randint(1, 5), rnd.randint(1, 5)
    elif size_class == "small":
        npos, nneg = rnd.randint(1, 40), rnd.randint(1, 40)
    elif size_class == "switch":
        npos, nneg = rnd.randint(92, 108), rnd.randint(92, 108)
        if rnd.random() < 0.3:
            npos = rnd.choice([99, 100, 101])
        if rnd.random() < 0.3:
            nneg = rnd.choice([99, 100, 101])
    elif size_class == "huge":
        npos, nneg = rnd.randint(1000, 2500), rnd.randint(1000, 2500)
    else:
        npos, nneg = rnd.randint(100, 300), rnd.randint(100, 300)
    if rnd.random() < 0.1 and size_class != "huge":
        # very unequal classes: one class from the other end of the size range (a single score, or hundreds against a few)
        if rnd.random() < 0.5:
            npos = rnd.choice([1, 1, 2, 3]) if size_class not in ("tiny", "small") else rnd.randint(100, 260)
        else:
            nneg = rnd.choice([1, 1, 2, 3]) if size_class not in ("tiny", "small") else rnd.randint(100, 260)
    if allow_empty and rnd.random() < 0.25:
        if rnd.random() < 0.5:
            npos = 0
        else:
            nneg = 0
    style = rnd.choice(["unique", "unique", "ties", "ties", "int", "const"])
    spec = {
        "pos": gen_values(rnd, npos, style, -3.0, 6.0),
        "neg": gen_values(rnd, nneg, style, -6.0, 3.0),
        "dtype": "int64" if style == "int" and rnd.random() < 0.6 else "float64",
        "nb_easy_pos": 0,
        "nb_easy_neg": 0,
        "score_class": rnd.choice(["pos", "neg"]),
        "equal_class": rnd.choice(["pos", "neg"]),
        "presorted": rnd.random() < 0.2,
        "size_class": size_class,
        "style": style,
    }
    if rnd.random() < 0.04 and npos and nneg:
        # the two classes hold the very same values (a model that cannot tell them apart): every score is tied across classes
        k_ = min(npos, nneg)
        spec["neg"] = list(spec["pos"][:k_]) + list(spec["neg"][k_:])
    if spec["dtype"] == "float64" and style in ("unique", "ties") and rnd.random() < 0.04 and allow_extreme:
        # magnitudes at which sums, squares and differences start to lose precision or overflow
        kind_ = rnd.choice(["huge", "tiny", "offset", "negative_huge"])
        f_ = {"huge": lambda v: v * 1e100, "tiny": lambda v: v * 1e-100, "offset": lambda v: 1e12 + v,
              "negative_huge": lambda v: -1e100 + v * 1e90}[kind_]
        spec["pos"] = [f_(v) for v in spec["pos"]]
        spec["neg"] = [f_(v) for v in spec["neg"]]
        spec["style"] = "extreme"
    if allow_extreme and spec["dtype"] == "int64" and rnd.random() < 0.15:
        # the two classes come from different places and have different dtypes; integer scores (ids, hashes, counts)
        # beyond 2**53, where float64 can no longer tell neighbours apart
        big = 2 ** 53
        spec["pos"] = [big + 2 * int(v) + 1 for v in spec["pos"]]
        if rnd.random() < 0.5:
            spec["dtype_neg"] = "float64"
            spec["neg"] = [float(v) for v in spec["neg"]]
        else:
            spec["dtype"], spec["dtype_neg"] = "uint64", "int64"
            spec["neg"] = [big + 2 * int(v) + 1 for v in spec["neg"]]
        spec["style"] = "bigint"
    if rnd.random() < 0.08 and not spec["presorted"] and spec["style"] not in ("extreme", "bigint"):
        spec["user_init"] = rnd.choice(["negating", "extra_arg"])
    elif rnd.random() < 0.12 and not spec["presorted"] and spec["style"] != "bigint":
        spec["via"] = "from_labels"
        spec["pos_label"] = rnd.choice([1, 1, "p", True, 2])
    if spec["dtype"] == "int64" and spec["style"] != "bigint":
        spec["pos"] = [int(v) for v in spec["pos"]]
        spec["neg"] = [int(v) for v in spec["neg"]]
        r_dt = rnd.random()
        if r_dt < 0.2:
            spec["dtype"] = "int32"
        elif r_dt < 0.45:
            # unsigned scores (e.g. 8-bit match scores): arithmetic on them wraps around instead of going negative
            spec["dtype"] = rnd.choice(["uint8", "uint16", "uint64"])
            spec["pos"] = [abs(v) + rnd.choice([0, 0, 100]) for v in spec["pos"]]
            spec["neg"] = [abs(v) + rnd.choice([0, 0, 100]) for v in spec["neg"]]
    elif rnd.random() < 0.06 and spec["style"] != "extreme":  # (1e100 is not finite in single precision: outside the quantifier)
        # single-precision scores (values chosen exactly representable so that the scenario round-trips)
        spec["dtype"] = "float32"
        spec["pos"] = [float(np.float32(v)) for v in spec["pos"]]
        spec["neg"] = [float(np.float32(v)) for v in spec["neg"]]
    r = rnd.random()
    if r < 0.45:
        mult = rnd.choice([0.2, 1, 3, 50])
        spec["nb_easy_pos"] = rnd.randint(0, max(1, int(mult * max(npos, 1))))
        spec["nb_easy_neg"] = rnd.randint(0, max(1, int(mult * max(nneg, 1))))
        if rnd.random() < 0.3:
            spec[rnd.choice(["nb_easy_pos", "nb_easy_neg"])] = 0
    if rnd.random() < 0.12:
        spec["easy_type"] = rnd.choice(["int64", "int64", "int32"])  # counts that come out of np.sum / np.count_nonzero
    if rnd.random() < 0.15:
        # the same values handed over in another legal container (list / tuple / non-contiguous or negative-stride view /
        # pandas Series with a shuffled non-default index)
        spec["container"] = rnd.choice(["list", "tuple", "strided", "negstride", "series", "series"])
    return spec


def coerce_values(spec):
    """Makes the score lists of a source spec representable in its dtype (after a generator replaced them)."""
    dt = spec.get("dtype", "float64")
    for key in ("pos", "neg"):
        if dt.startswith("uint"):
            spec[key] = [int(abs(v)) for v in spec[key]]
        elif dt.startswith("int"):
            spec[key] = [int(v) for v in spec[key]]
        elif dt == "float32":
            spec[key] = [float(np.float32(v)) for v in spec[key]]
    return spec


def gen_cfg(rnd, method):
    cfg = {"sampling_method": method, "stratified_sampling": rnd.choice([None, None, "by_label"]), "smoothing": False}
    if method in ("replacement", "dynamic") and rnd.random() < 0.2:
        cfg["smoothing"] = True
    if method == "proportion":
        cfg["ratio"] = rnd.choice([0.01, 0.1, 0.25, 1 / 3, 0.5, 0.7, 0.9, 0.99, round(rnd.uniform(0.02, 0.98), 3)])
    elif rnd.random() < 0.1:
        cfg["ratio"] = 0.5  # must be ignored by the other methods
    if method == "callable":
        cfg["sampling_method"] = {"callable": rnd.choice(["identity", "fixed", "fixed", "raising"]),
                                  "form": rnd.choice(["function", "function", "instance", "partial", "method"])}
    return cfg


def gen_fault(rnd, n_draw_guess=6):
    r = rnd.random()
    if r < 0.12:
        return {"kind": "interference", "at": rnd.randint(0, n_draw_guess), "k": rnd.randint(1, 5), "rep": rnd.choice(["*", 0])}
    kind = rnd.choice(DRAW_FAULTS)
    f = {"kind": kind, "rep": rnd.choice(["*", "*", 0, 1])}
    if rnd.random() < 0.5:
        f["at"] = rnd.randint(0, n_draw_guess)
    else:
        f["every"] = rnd.choice([1, 1, 2, 3])
        f["offset"] = rnd.randint(0, 3)
    return f


def generate(rnd, tier):
    size_class = rnd.choices(["tiny", "small", "switch", "large", "huge", "giant"], weights=[30, 40, 15, 14, 1, 0.25])[0]
    n_obj = 1 if rnd.random() < 0.75 else 2
    objects = []
    # the quantifier allows empty classes for replacement only: decide per object
    for _ in range(n_obj):
        allow_empty = rnd.random() < 0.2
        o = gen_source(rnd, size_class, allow_empty)
        o["replacement_only"] = (len(o["pos"]) == 0 or len(o["neg"]) == 0) and not o.get("synth")
        objects.append(o)
    fault_free = rnd.random() < 0.34
    enabled = [k for k in DRAW_FAULTS if rnd.random() < 0.5] or [rnd.choice(DRAW_FAULTS)]
    ops = []
    n_ops = rnd.randint(2, 10)
    big = size_class in ("switch", "large", "huge", "giant")
    pool_n = n_obj
    for _ in range(n_ops):
        r = rnd.random()
        oi = rnd.randrange(pool_n)
        if r < 0.12:
            ops.append({"op": "query", "obj": oi, "what": rnd.choice(["cm", "fnr", "fpr", "threshold_at_fnr", "swap", "copy", "deepcopy", "pickle"])})
            continue
        if r < 0.18:
            ops.append({"op": "reseed", "seed": rnd.randrange(2**31)})
            continue
        if r < 0.21 and not objects[oi % n_obj]["replacement_only"]:
            ops.append({"op": "expect_error", "obj": oi, "case": rnd.choice(["single_pass_smoothing", "proportion_no_ratio", "unknown_method", "non_callable"])})
            continue
        method = rnd.choice(METHODS[:3]) if rnd.random() < 0.8 else rnd.choice(METHODS[3:])
        if (oi >= n_obj or objects[oi]["replacement_only"]) and method not in ("callable",):
            method = "replacement" if (oi < n_obj or rnd.random() < 0.5) else method
        cfg = gen_cfg(rnd, method)
        if oi >= n_obj or objects[oi]["replacement_only"]:
            cfg["smoothing"] = False
        op = {"op": "sample", "obj": oi, "cfg": cfg, "repeat": rnd.randint(1, 2 if size_class in ("huge", "giant") else 6 if big else 30), "faults": []}
        if method != "callable" and rnd.random() < 0.15:
            op["adopt"] = True  # the last sample of this op becomes a source itself (a sample of a sample)
            pool_n += 1
        if not fault_free:
            for _ in range(rnd.choice([0, 1, 1, 2, 3])):
                f = gen_fault(rnd)
                if f["kind"] == "interference" or f["kind"] in enabled:
                    op["faults"].append(f)
            if rnd.random() < 0.12:
                # the user interrupts the first computation on a fresh sample and keeps using the sample
                op["faults"].append({"kind": "sample_query_interrupt", "at_line": rnd.randint(1, 14), "rep": rnd.choice(["*", 0]),
                                     "exc": rnd.choice(["SimInterrupt", "MemoryError"])})
        ops.append(op)
    return {"np_seed": rnd.randrange(2**31), "objects": objects, "ops": ops}


# --------------------------------------------------------------------------
# oracle helpers


def effective_method(cfg, src):
    m = cfg["sampling_method"]
    if isinstance(m, dict):
        return "callable"
    if m != "dynamic":
        return m
    lo = min(len(src.pos), len(src.neg))
    if cfg.get("smoothing") or lo < 100:
        return "replacement"
    if lo == 100:
        return "open"  # code and documentation disagree at exactly 100
    return "single_pass"


def floor_ok(value, product):
    """value == floor(product), either neighbour accepted when product is within 1e-9 of an integer."""
    f = np.floor(product)
    if value == f:
        return True
    r = np.round(product)
    return abs(product - r) < 1e-9 and value in (r, r - 1)


def check_sample(src, src_fp, cfg, eff, sample, returned, v, tags):
    """Appends violations for one bootstrap sample."""
    L = lib()

    def bad(name, detail):
        v.append({"invariant": f"C11.{name}", "detail": detail, "tags": tags})

    if not isinstance(sample, L.Scores):
        bad("type_flags", f"bootstrap_sample returned {type(sample).__name__}")
        return
    if eff == "callable":
        if sample is not returned:
            bad("callable_passthrough", "sample is not the object returned by the custom sampler")
        if M.fingerprint(src) != src_fp:
            bad("source_unchanged", "source object changed by bootstrap_sample")
        return
    if M.flags_of(sample) != M.flags_of(src):
        bad("type_flags", f"flags {M.flags_of(sample)} != source {M.flags_of(src)}")
    smoothing = bool(cfg.get("smoothing"))
    pos, neg = np.asarray(sample.pos), np.asarray(sample.neg)
    if pos.ndim != 1 or neg.ndim != 1:
        bad("type_flags", f"sample arrays have shapes {pos.shape} {neg.shape}")
        return
    if not smoothing:
        if not M.values_subset(pos, src.pos):
            bad("membership", "sample positive not among the source's positives")
        if not M.values_subset(neg, src.neg):
            bad("membership", "sample negative not among the source's negatives")
    if not (M.is_sorted(pos) and M.is_sorted(neg)):
        bad("sorted", "sample arrays are not non-decreasing")
    # metrics equal direct counting on the sample's own arrays
    sc, ec = M.flags_of(sample)
    ts = M.probe_thresholds(pos, neg)
    if len(ts) > 14:
        ts = ts[:: max(1, len(ts) // 14)]
    try:
        got = np.asarray(sample.cm(ts).matrix)
        for k, t in enumerate(ts):
            exp = M.count_cm(pos, neg, t, sc, ec, sample.nb_easy_pos, sample.nb_easy_neg)
            if not np.array_equal(got[k], exp):
                bad("cm_counting", f"sample.cm({t!r}) = {got[k].tolist()} but counting gives {exp.tolist()}")
                break
    except Exception as e:  # noqa: BLE001
        bad("cm_counting", f"sample.cm raised {type(e).__name__}: {e}")
    for name in ("nb_easy_pos", "nb_easy_neg"):
        x = getattr(sample, name)
        if not isinstance(x, (int, np.integer)) or x < 0:
            bad("counts_valid", f"{name} = {x!r}")
            return
    if len(src.pos) > 0 and len(pos) == 0:
        bad("at_least_one", f"source has {len(src.pos)} scored positives, sample has none")
    if len(src.neg) > 0 and len(neg) == 0:
        bad("at_least_one", f"source has {len(src.neg)} scored negatives, sample has none")
    by_label = cfg.get("stratified_sampling") == "by_label"
    if eff == "replacement":
        if sample.nb_all_samples != src.nb_all_samples:
            bad("total_preserved", f"replacement sample has {sample.nb_all_samples} samples, source {src.nb_all_samples}")
        if by_label:
            got4 = (len(pos), len(neg), int(sample.nb_easy_pos), int(sample.nb_easy_neg))
            exp4 = (len(src.pos), len(src.neg), int(src.nb_easy_pos), int(src.nb_easy_neg))
            if got4 != exp4:
                bad("strata_preserved", f"strata (hard pos, hard neg, easy pos, easy neg) {got4} != source {exp4}")
    elif eff == "single_pass" and by_label:
        if (int(sample.nb_easy_pos), int(sample.nb_easy_neg)) != (int(src.nb_easy_pos), int(src.nb_easy_neg)):
            bad("strata_preserved", "by_label single-pass sample changed the easy strata")
    elif eff == "proportion":
        r = cfg["ratio"]
        for nm, arr, sarr in (("pos", pos, src.pos), ("neg", neg, src.neg)):
            prod = r * len(sarr)
            if not (floor_ok(len(arr), prod) or (len(arr) == 1 and prod < 1 + 1e-9)):
                bad("proportion_sizes", f"{nm}: {len(arr)} drawn, ratio*n = {prod}")
            if not M.multiset_included(arr, sarr):
                bad("proportion_subset", f"{nm}: an element was drawn more often than it occurs (sampling with replacement?)")
        for nm, a, b in (("easy_pos", sample.nb_easy_pos, src.nb_easy_pos), ("easy_neg", sample.nb_easy_neg, src.nb_easy_neg)):
            if not floor_ok(int(a), r * b):
                bad("proportion_sizes", f"{nm}: {a} vs ratio*k = {r * b}")
    if M.fingerprint(src) != src_fp:
        bad("source_unchanged", "source object changed by bootstrap_sample")


class SamplerFault(Exception):
    pass


def make_sampler(kind, fixed_spec):
    box = {"returned": None, "calls": 0}
    if kind == "raising":
        def sampler(source, **kw):
            box["calls"] += 1
            box["raised"] = True
            raise SamplerFault("planned failure of the custom sampler")
        return sampler, box
    if kind == "identity":
        def sampler(source, **kw):
            box["calls"] += 1
            box["returned"] = source
            return source
    else:
        def sampler(source, **kw):
            box["calls"] += 1
            o, _ = M.build_scores(fixed_spec)
            box["returned"] = o
            return o
    return sampler, box


class _CallableSampler:
    """A sampler that is an object with __call__ rather than a function."""

    def __init__(self, fn):
        self.fn = fn

    def __call__(self, source, **kw):
        return self.fn(source, **kw)


def wrap_callable(fn, form):
    """The same sampler as another kind of callable: an instance with __call__, a functools.partial, a bound method."""
    if form == "instance":
        return _CallableSampler(fn)
    if form == "partial":
        import functools

        return functools.partial(lambda tag, source, **kw: fn(source, **kw), "tag")
    if form == "method":
        return _CallableSampler(fn).__call__
    return fn


def size_class_of(o):
    n = min(len(o.pos), len(o.neg))
    return "0" if n == 0 else "1-5" if n <= 5 else "6-40" if n <= 40 else "41-99" if n < 100 else "100" if n == 100 else ">100"


# --------------------------------------------------------------------------
# execution


def execute(scn, ctx):
    if scn.get("stat"):
        return execute_stat(scn, ctx)
    seam = ctx.seam
    seam.seed(scn["np_seed"])
    objs, callers, caller_fp = [], [], []
    for spec in scn["objects"]:
        o, c = M.build_scores(spec)
        objs.append(o)
        callers.append(c)
        caller_fp.append(c.fp0)
    specs = list(scn["objects"])
    viol, trace = [], []
    probes, faults = {}, {}
    sig = []
    states = set()
    n_samples = 0
    n_draws = n_forced = 0
    held = []  # earlier samples: drawing more samples or querying the source must not change them

    def probe(name, k=1):
        probes[name] = probes.get(name, 0) + k

    for spec, o in zip(scn["objects"], objs):
        if len(o.pos) == 0 or len(o.neg) == 0:
            probe("empty_class_source")
        if len(np.unique(o.pos)) < len(o.pos) or len(np.unique(o.neg)) < len(o.neg):
            probe("ties_in_source")
        if o.pos.dtype.kind in "iu":
            probe("int_scores")
        if o.pos.dtype.kind == "u":
            probe("unsigned_scores")
        if spec.get("via") == "from_labels":
            probe("from_labels_source")
        if o.nb_easy_pos or o.nb_easy_neg:
            probe("easy_samples")
        if spec.get("presorted"):
            probe("presorted_source")

    for step, op in enumerate(scn["ops"]):
        kind = op["op"]
        if kind == "reseed":
            seam.seed(op["seed"])
            trace.append([step, "reseed"])
            sig.append("reseed")
            continue
        oi = op["obj"] % len(objs)
        src = objs[oi]
        src_fp = M.fingerprint(src)
        if kind == "expect_error":
            # documented ValueErrors of bootstrap_sample (docstrings / messages in the source)
            L_ = lib()
            case = op["case"]
            bad_cfg = {"single_pass_smoothing": dict(sampling_method="single_pass", smoothing=True),
                       "proportion_no_ratio": dict(sampling_method="proportion"),
                       "unknown_method": dict(sampling_method="jackknife"),
                       "non_callable": dict(sampling_method=3.5)}[case]
            probe("documented_error")
            if len(src.pos) and len(src.neg):
                try:
                    src.bootstrap_sample(L_.BootstrapConfig(**bad_cfg))
                    viol.append({"invariant": "C11.documented_error", "tags": {"case": case},
                                 "detail": f"bootstrap_sample({bad_cfg}) returned a sample; a ValueError is documented (op {step})"})
                except ValueError:
                    pass
                except Exception as e:  # noqa: BLE001
                    viol.append({"invariant": "C11.documented_error", "tags": {"case": case},
                                 "detail": f"bootstrap_sample({bad_cfg}) raised {type(e).__name__}: {e}; a ValueError is documented (op {step})"})
                if M.fingerprint(src) != src_fp:
                    viol.append({"invariant": "C11.source_unchanged", "detail": "a rejected configuration changed the source", "tags": {"case": case}})
            trace.append([step, "expect_error", case])
            sig.append("err|" + case)
            continue
        if kind == "query":
            try:
                what = op["what"]
                if what == "swap":
                    r = src.swap().swap()
                    out = M.canon(r)
                elif what in ("copy", "deepcopy", "pickle"):
                    # caller-side history step: from here on the source is its own copy / unpickled self
                    import copy as _copy
                    import pickle as _pickle
                    r = _copy.copy(src) if what == "copy" else _copy.deepcopy(src) if what == "deepcopy" else _pickle.loads(_pickle.dumps(src))
                    out = M.canon(r)
                    probe("source_copied")
                    if out != M.canon(src) or type(r) is not type(src):
                        viol.append({"invariant": "C11.source_unchanged", "tags": {"how": what},
                                     "detail": f"the {what} round trip of the source is not equal to the source (op {step})"})
                    else:
                        objs[oi] = r
                elif what == "threshold_at_fnr":
                    out = M.canon(src.threshold_at_fnr(np.array([0.1, 0.5]))) if len(src.pos) else None
                elif what == "cm":
                    out = M.canon(src.cm(np.array([0.0, 1.0])))
                else:
                    out = M.canon(getattr(src, what)(0.5))
            except Exception as e:  # noqa: BLE001
                out = ("exc", type(e).__name__)
            if M.fingerprint(src) != src_fp:
                viol.append({"invariant": "C11.source_unchanged", "detail": f"query {op['what']} changed the source", "tags": {}})
            trace.append([step, "query", op["what"], M.digest(out)[:12]])
            sig.append("q")
            continue
        # ---- sample op
        cfg = op["cfg"]
        eff = effective_method(cfg, src)
        if (len(src.pos) == 0 or len(src.neg) == 0) and (eff not in ("replacement", "callable") or cfg.get("smoothing")):
            trace.append([step, "skipped-outside-quantifier"])
            if op.get("adopt"):
                objs.append(src)
                callers.append(M._callers({}))
                caller_fp.append(M.fingerprint([]))
                specs.append(specs[oi])
            continue  # empty classes are in the quantifier for plain replacement sampling only
        sampler = box = None
        if eff == "callable":
            sampler, box = make_sampler(cfg["sampling_method"]["callable"], {k_: v_ for k_, v_ in specs[oi].items() if k_ not in ("via", "presorted", "swaps")})
            sampler = wrap_callable(sampler, cfg["sampling_method"].get("form", "function"))
            probe("callable")
        config = M.build_config(cfg, sampler)
        tags = {"method": cfg["sampling_method"] if not isinstance(cfg["sampling_method"], dict) else "callable",
                "strat": cfg.get("stratified_sampling"), "smoothing": bool(cfg.get("smoothing")), "effective": eff}
        if cfg["sampling_method"] == "dynamic":
            probe("dynamic_to_single_pass" if eff == "single_pass" else "dynamic_to_replacement" if eff == "replacement" else "dynamic_open")
        if cfg.get("smoothing"):
            probe("smoothing")
        if eff == "proportion":
            probe("proportion")
        states.add(f"{size_class_of(src)}|{specs[oi].get('style')}|e{int(bool(src.nb_easy_pos))}{int(bool(src.nb_easy_neg))}|"
                   f"{src.score_class.value}{src.equal_class.value}|{tags['method']}|{tags['strat']}|{tags['smoothing']}")
        h = hashlib.sha1()
        fired_kinds = set()
        outcome = "ok"
        for hs in list(held):
            if M.fingerprint(hs[1]) != hs[2]:
                viol.append({"invariant": "C11.sample_stable", "tags": tags,
                             "detail": f"a sample returned at op {hs[0]} was changed by later calls (before op {step})"})
                held.remove(hs)
        for rep in range(int(op.get("repeat", 1))):
            plan = [f for f in op.get("faults", []) if f.get("rep", "*") in ("*", rep)]
            seam.begin_op(plan)
            try:
                s = src.bootstrap_sample(config)
                err = None
            except Exception as e:  # noqa: BLE001
                s, err = None, e
            info = seam.end_op()
            n_draws += info["draws"]
            for k_, kd in info["fired"]:
                faults[kd] = faults.get(kd, 0) + 1
                fired_kinds.add(kd)
                if kd != "interference":
                    n_forced += 1
            for entry in info["log"]:
                if entry[1] == "binomial" and entry[6] is None and isinstance(entry[5], int):
                    # scalar class/easy draw at an extreme on the faithful stream
                    n_arg = entry[3][0] if entry[3] else None
                    p_arg = entry[3][1] if len(entry[3]) > 1 else None
                    if isinstance(n_arg, int) and n_arg > 0 and entry[5] in (0, n_arg) and isinstance(p_arg, float) and 0 < p_arg < 1:
                        probe("extreme_class_draw" if entry[0] == 0 else "extreme_easy_draw")
                if entry[1] == "poisson":
                    probe("single_pass_poisson")
                if entry[1] == "binomial" and not isinstance(entry[5], int):
                    probe("single_pass_binomial")
            if box is not None and box.get("raised"):
                faults["sampler_raise"] = faults.get("sampler_raise", 0) + 1
                fired_kinds.add("sampler_raise")
                if err is None:
                    viol.append({"invariant": "C11.callable_passthrough", "tags": tags,
                                 "detail": f"the custom sampler raised but bootstrap_sample returned {type(s).__name__} (exception swallowed) (op {step}, rep {rep})"})
                if M.fingerprint(src) != src_fp:
                    viol.append({"invariant": "C11.source_unchanged", "detail": "source changed by a failing custom sampler", "tags": tags})
                outcome = "sampler-raised"
                h.update(b"sampler-raised")
                break
            if err is not None:
                outcome = "raise:" + type(err).__name__
                viol.append({"invariant": "C11.sample_raises", "tags": tags,
                             "detail": f"bootstrap_sample raised {type(err).__name__}: {err} (rep {rep})"})
                h.update(outcome.encode())
                if M.fingerprint(src) != src_fp:
                    viol.append({"invariant": "C11.source_unchanged", "detail": "source changed by a failing bootstrap_sample", "tags": tags})
                break
            n_samples += 1
            qi = next((f for f in plan if f["kind"] == "sample_query_interrupt"), None)
            if qi is not None and isinstance(s, lib().Scores) and eff != "callable":
                from ..ops import EXC
                ok_, v_, n_, fired_ = ctx.tracer.run(lambda: (s.cm(np.array([0.0, 1.0])), s.nb_all_samples, s.fnr(0.5)),
                                                     at=int(qi["at_line"]), exc=EXC.get(qi.get("exc"), EXC["SimInterrupt"]))
                if fired_:
                    faults["sample_query_interrupt"] = faults.get("sample_query_interrupt", 0) + 1
                    fired_kinds.add("sample_query_interrupt")
            before = len(viol)
            check_sample(src, src_fp, cfg, eff, s, box["returned"] if box else None, viol, tags)
            if len(viol) > before:
                for x in viol[before:]:
                    x["detail"] += f" (op {step}, rep {rep})"
            if isinstance(s, lib().Scores):
                h.update(json.dumps(M.fingerprint(s), default=str).encode())
                if eff != "callable":
                    for hs in list(held):
                        if M.fingerprint(hs[1]) != hs[2]:
                            viol.append({"invariant": "C11.sample_stable", "tags": tags,
                                         "detail": f"a sample returned at op {hs[0]} was changed when a later sample was drawn (op {step}, rep {rep})"})
                            held.remove(hs)
                    held.append((step, s, M.fingerprint(s)))
                    if len(held) > 3:
                        held.pop(0)
        if op.get("adopt"):
            last = next((hs[1] for hs in reversed(held) if hs[0] == step), None)
            if last is not None and len(last.pos) and len(last.neg):
                probe("sample_of_sample")
                objs.append(last)
                callers.append(M._callers({}))
                caller_fp.append(M.fingerprint([]))
                specs.append({"pos": np.asarray(last.pos, dtype=float).tolist(), "neg": np.asarray(last.neg, dtype=float).tolist(),
                              "dtype": "float64", "nb_easy_pos": int(last.nb_easy_pos), "nb_easy_neg": int(last.nb_easy_neg),
                              "score_class": last.score_class.value, "equal_class": last.equal_class.value, "style": "adopted"})
            else:
                objs.append(src)
                callers.append(M._callers({}))
                caller_fp.append(M.fingerprint([]))
                specs.append(specs[oi])
        cfp = M.fingerprint(list(callers[oi].values()))
        if cfp != caller_fp[oi]:
            viol.append({"invariant": "C11.source_unchanged", "detail": "caller-supplied score arrays were modified", "tags": tags})
        trace.append([step, "sample", tags, op.get("repeat", 1), h.hexdigest()[:16], sorted(fired_kinds), outcome])
        sig.append(f"s|{tags['method']}|{tags['strat']}|{tags['smoothing']}|{eff}|{size_class_of(src)}|{','.join(sorted(fired_kinds))}|{outcome}")
    # de-duplicate violations by invariant (keep first of each)
    seen, out = set(), []
    for x in viol:
        key = (x["invariant"], json.dumps(x.get("tags", {}), sort_keys=True))
        if key not in seen:
            seen.add(key)
            out.append(x)
    return {
        "violations": out,
        "trace": trace,
        "stats": {"ops": len(scn["ops"]), "draws": n_draws, "forced": n_forced, "samples_checked": n_samples,
                  "faults": faults, "probes": probes},
        "signature": hashlib.sha1("\n".join(sig).encode()).hexdigest(),
        "nontrivial": n_samples >= 2 or bool(faults),
        "states": sorted(states),
    }


# --------------------------------------------------------------------------
# distributional oracle

STAT_COMBOS = [
    ("replacement", None, False), ("replacement", "by_label", False), ("single_pass", None, False),
    ("single_pass", "by_label", False), ("dynamic", None, False), ("dynamic", "by_label", False),
    ("proportion", None, False), ("replacement", None, True), ("dynamic", "by_label", True),
    ("proportion", None, False, "sparse"),  # a small fraction of a large class: where sparse / rejection-style draws would live
    ("single_pass", None, False, "ties"),  # heavily tied scores: every source score (not every distinct value) is drawn once on average
    ("replacement", None, False, "ties"),
    ("replacement", None, False, "easy_heavy"),  # a handful of scored samples next to many easy ones: the hard stratum's mean
    ("proportion", None, False, "k1"),  # one score drawn from a class of 55-100: every score, the last one included, is that one equally often
    ("replacement", "by_label", False, "big"),  # tens of thousands of scores in a class, explicit replacement: per-score means (streamed)
]


def stat_scenario(verif_seed, j, tier):
    import random

    from ..runner import run_seed

    rnd = random.Random(run_seed(verif_seed, "C11-stat", j))
    combo = STAT_COMBOS[j % len(STAT_COMBOS)]
    method, strat, smoothing = combo[:3]
    variant = combo[3] if len(combo) > 3 else None
    sparse = variant == "sparse"
    small = (j // len(STAT_COMBOS)) % 4 == 3 and method in ("replacement", "single_pass") and variant is None
    if variant == "big":
        # described by size and seed (M.build_scores, "synth"); far fewer samples than elsewhere: each one is 40000 draws
        spec = {"pos": [], "neg": [], "synth": {"n_pos": rnd.choice([rnd.randint(33000, 45000), rnd.randint(4096, 9000)]), "n_neg": rnd.randint(120, 200),
                                                "seed": rnd.randrange(2 ** 31), "decimals": 6},
                "dtype": "float64", "score_class": rnd.choice(["pos", "neg"]), "equal_class": rnd.choice(["pos", "neg"]), "nb_easy_pos": 0, "nb_easy_neg": 0}
        return {"stat": True, "big": True, "np_seed": rnd.randrange(2**31), "object": spec,
                "cfg": {"sampling_method": method, "stratified_sampling": strat, "smoothing": False}, "M": max(2000, TIERS[tier]["stat_M"] // 5)}
    if variant == "easy_heavy":
        npos, nneg = rnd.randint(4, 8), rnd.randint(40, 90)
    elif variant == "k1":
        npos, nneg = rnd.randint(55, 70), rnd.randint(95, 100)
    elif small:
        npos, nneg = rnd.randint(30, 90), rnd.randint(30, 90)
    elif sparse:
        npos, nneg = rnd.randint(400, 900), rnd.randint(400, 900)
    else:
        npos, nneg = rnd.randint(101, 300), rnd.randint(101, 300)
    while abs(npos - nneg) < 25:  # make swapped class parameters visible in the means
        nneg = rnd.randint(30, 90) if small else rnd.randint(400, 900) if sparse else rnd.randint(101, 300)
    vstyle = "ties" if variant == "ties" else "unique"
    spec = {
        "pos": gen_values(rnd, npos, vstyle, -3.0, 6.0), "neg": gen_values(rnd, nneg, vstyle, -6.0, 3.0),
        "dtype": "float64", "score_class": rnd.choice(["pos", "neg"]), "equal_class": rnd.choice(["pos", "neg"]),
        "nb_easy_pos": 0, "nb_easy_neg": 0,
    }
    if rnd.random() < 0.6:
        spec["nb_easy_pos"] = rnd.randint(0, npos // 2)
        spec["nb_easy_neg"] = rnd.randint(nneg // 2, nneg)
        if rnd.random() < 0.4:
            spec[rnd.choice(["nb_easy_pos", "nb_easy_neg"])] = rnd.randint(1, 3)  # a very small easy stratum next to many scored samples
    if variant == "easy_heavy":
        spec["nb_easy_pos"], spec["nb_easy_neg"] = rnd.randint(30, 70), rnd.randint(0, 20)
    cfg = {"sampling_method": method, "stratified_sampling": strat, "smoothing": smoothing}
    if method == "proportion":
        cfg["ratio"] = rnd.choice([0.005, 0.01, 0.02, 0.02, 0.04, 0.06]) if sparse else 0.01 if variant == "k1" else rnd.choice([0.1, 0.25, 0.5, 0.8])
    return {"stat": True, "np_seed": rnd.randrange(2**31), "object": spec, "cfg": cfg, "M": TIERS[tier]["stat_M"]}


def execute_stat_big(scn, ctx):
    """Per-score mean multiplicity for a very large class, streamed (sum and sum of squares instead of an M x n matrix)."""
    seam = ctx.seam
    seam.seed(scn["np_seed"])
    seam.begin_op([])
    src, _ = M.build_scores(scn["object"])
    cfg = scn["cfg"]
    config = M.build_config(cfg)
    Mn = int(scn["M"])
    R = 8.0
    tags = {"method": cfg["sampling_method"], "strat": cfg.get("stratified_sampling"), "smoothing": False, "stat": True, "big": True}
    up, mp_ = np.unique(np.asarray(src.pos), return_counts=True)
    s1, s2 = np.zeros(len(up)), np.zeros(len(up))
    viol = []
    for i in range(Mn):
        try:
            s = src.bootstrap_sample(config)
        except Exception as e:  # noqa: BLE001
            info = seam.end_op()
            return {"violations": [{"invariant": "C11.sample_raises", "tags": tags, "detail": f"bootstrap_sample raised {type(e).__name__}: {e} (large-class scenario, sample {i})"}],
                    "trace": [["stat", tags, i, "raised"]], "stats": {"ops": i, "draws": info["draws"], "forced": 0, "faults": {}, "probes": {}},
                    "signature": "stat-raised", "nontrivial": True, "states": []}
        if not M.values_subset(s.pos[:: max(1, len(s.pos) // 64)], up):
            viol.append({"invariant": "C11.membership", "tags": tags, "detail": f"sample {i} holds positives that are not in the source"})
            break
        c = np.minimum(np.bincount(np.minimum(np.searchsorted(up, s.pos), len(up) - 1), minlength=len(up))[: len(up)], R * mp_) / mp_
        s1 += c
        s2 += c * c
    info = seam.end_op()
    m = s1 / Mn
    var = np.maximum(s2 - Mn * m * m, 0.0) / max(Mn - 1, 1)
    tol = ST.eb_tolerance(var, R, Mn) + 1e-3
    off = np.abs(m - 1.0) > tol
    if not viol and off.any():
        w = int(np.argmax(np.abs(m - 1.0) - tol))
        viol.append({"invariant": "C11.unbiased_multiplicity", "tags": tags,
                     "detail": f"pos value #{w} of {len(up)}: mean multiplicity {m[w]:.4f}, expected 1 +- {tol[w]:.4f} (M={Mn}); {int(off.sum())} values off"})
    if not viol and (s1 == 0).any():
        viol.append({"invariant": "C11.reachability", "tags": tags, "detail": f"pos value #{int(np.argmax(s1 == 0))} never drawn in {Mn} samples of {len(src.pos)} draws"})
    trace = [["stat-big", tags, Mn, hashlib.sha1(s1.tobytes() + s2.tobytes()).hexdigest()[:16]]]
    return {"violations": viol, "trace": trace,
            "stats": {"ops": Mn, "draws": info["draws"], "forced": 0, "samples_checked": Mn, "faults": {}, "probes": {}, "stat_tests": len(up)},
            "signature": hashlib.sha1(json.dumps([tags, len(up)]).encode()).hexdigest(), "nontrivial": True, "states": ["stat|big"]}


def execute_stat(scn, ctx):
    if scn.get("big"):
        return execute_stat_big(scn, ctx)
    seam = ctx.seam
    seam.seed(scn["np_seed"])
    seam.begin_op([])
    src, _ = M.build_scores(scn["object"])
    cfg = scn["cfg"]
    config = M.build_config(cfg)
    Mn = int(scn["M"])
    eff = effective_method(cfg, src)
    # distinct values and how often each occurs in the source (all 1 except in the tied variant): a value that occurs
    # m times is drawn m times per sample on average
    up, mp_ = np.unique(np.asarray(src.pos), return_counts=True)
    un, mn_ = np.unique(np.asarray(src.neg), return_counts=True)
    tied = bool((mp_ > 1).any() or (mn_ > 1).any())
    R = 6
    cp = np.zeros((Mn, len(up)), dtype=np.float32 if tied else np.int8)
    cn = np.zeros((Mn, len(un)), dtype=np.float32 if tied else np.int8)
    sizes = np.zeros((Mn, 4))
    smoothing = bool(cfg.get("smoothing"))
    tags = {"method": cfg["sampling_method"], "strat": cfg.get("stratified_sampling"), "smoothing": smoothing, "stat": True}
    viol = []
    for i in range(Mn):
        try:
            s = src.bootstrap_sample(config)
        except Exception as e:  # noqa: BLE001 - a library failure is a finding, not a harness error
            info = seam.end_op()
            return {"violations": [{"invariant": "C11.sample_raises", "tags": tags,
                                    "detail": f"bootstrap_sample raised {type(e).__name__}: {e} (distribution scenario, sample {i})"}],
                    "trace": [["stat", tags, i, "raised"]], "stats": {"ops": i, "draws": info["draws"], "forced": 0, "faults": {}, "probes": {}},
                    "signature": "stat-raised", "nontrivial": True, "states": []}
        if not smoothing:
            ip = np.searchsorted(up, s.pos)
            ineg = np.searchsorted(un, s.neg)
            if tied:  # occurrences per source copy of the value, capped like the untied count
                cp[i] = np.minimum(np.bincount(np.minimum(ip, len(up) - 1), minlength=len(up))[: len(up)], R * mp_) / mp_
                cn[i] = np.minimum(np.bincount(np.minimum(ineg, len(un) - 1), minlength=len(un))[: len(un)], R * mn_) / mn_
            else:
                cp[i] = np.minimum(np.bincount(ip, minlength=len(up))[: len(up)], R)
                cn[i] = np.minimum(np.bincount(ineg, minlength=len(un))[: len(un)], R)
        sizes[i] = (len(s.pos), len(s.neg), s.nb_easy_pos, s.nb_easy_neg)
    info = seam.end_op()
    n_tests = 0
    npos, nneg = len(src.pos), len(src.neg)
    cap = 2 * (src.nb_all_samples) + 50
    src_sizes = np.array([npos, nneg, src.nb_easy_pos, src.nb_easy_neg], dtype=float)
    if eff == "proportion":
        r = cfg["ratio"]
        for nm, c in (("pos", cp), ("neg", cn)):
            if (c > 1).any():  # the source's scores are distinct: no value can be drawn twice without replacement
                w = np.argwhere(c > 1)[0]
                viol.append({"invariant": "C11.proportion_subset", "tags": tags,
                             "detail": f"{nm}: value #{int(w[1])} occurs {int(c[w[0], w[1]])} times in sample {int(w[0])} of {Mn} (drawn with replacement?)"})
        kp, kn = max(int(np.floor(r * npos + 1e-9)), 1), max(int(np.floor(r * nneg + 1e-9)), 1)
        for nm, c, k, n in (("pos", cp, kp, npos), ("neg", cn, kn, nneg)):
            pres = (c > 0).astype(float)
            ok, m, tol = ST.mean_test(pres, np.full(n, k / n), 1.0)
            n_tests += n
            if not ok.all():
                w = int(np.argmin(ok))
                viol.append({"invariant": "C11.unbiased_proportion", "tags": tags,
                             "detail": f"{nm} value #{w}: inclusion frequency {m[w]:.4f}, expected {k / n:.4f} +- {tol[w]:.4f} (M={Mn})"})
    else:
        if not smoothing:
            for nm, c, n in (("pos", cp, npos), ("neg", cn, nneg)):
                reach = c.max(axis=0) > 0
                if not reach.all():
                    viol.append({"invariant": "C11.reachability", "tags": tags,
                                 "detail": f"{nm} value #{int(np.argmin(reach))} never drawn in {Mn} samples"})
                ok, m, tol = ST.mean_test(c.astype(float), np.ones(c.shape[1]), float(R), slack=1e-3)
                n_tests += n
                if not ok.all():
                    w = int(np.argmax(np.abs(m - 1) - tol))
                    viol.append({"invariant": "C11.unbiased_multiplicity", "tags": tags,
                                 "detail": f"{nm} value #{w}: mean multiplicity {m[w]:.4f}, expected 1 +- {tol[w]:.4f} (M={Mn})"})
        # Sizes are clipped to a window of +-8 sqrt(N_all) around the source's sizes before averaging: under any
        # scheme with the documented means and binomial/Poisson-like spread the window is left with probability
        # < 1e-14, so clipping does not move the mean, but it shrinks the range term of the bound by an order of
        # magnitude; a shifted mean still shows (it saturates at the window's edge at worst).
        half = 8.0 * np.sqrt(max(src.nb_all_samples, 1))
        win = np.clip(sizes - src_sizes[None, :], -half, half) + half
        ok, m, tol = ST.mean_test(win, np.full(4, half), 2 * half)
        m = m - half + src_sizes
        n_tests += 4
        # the same test with a window per stratum, +-(8 sqrt(2 m) + 16) around its own size m: a small stratum (one or two
        # easy samples next to many scored ones) has a spread of about 1, not sqrt(N); the common window above would
        # drown a shift of a third of a sample in its range term.  Leaving this window has probability < 1e-14 as well.
        half_c = 8.0 * np.sqrt(2.0 * np.maximum(src_sizes, 1.0)) + 16.0
        for c_ in range(4):
            win_c = (np.clip(sizes[:, c_] - src_sizes[c_], -half_c[c_], half_c[c_]) + half_c[c_])[:, None]
            ok_c, m_c, tol_c = ST.mean_test(win_c, np.full(1, half_c[c_]), 2 * half_c[c_])
            n_tests += 1
            if not ok_c.all() and ok.all():
                ok = ok.copy()
                ok[c_] = False
                m[c_] = m_c[0] - half_c[c_] + src_sizes[c_]
                tol[c_] = tol_c[0]
        if not ok.all():
            w = int(np.argmin(ok))
            viol.append({"invariant": "C11.unbiased_sizes", "tags": tags,
                         "detail": f"mean (hard pos, hard neg, easy pos, easy neg) = {np.round(m, 3).tolist()}, source {src_sizes.tolist()}, "
                                   f"tolerance {np.round(tol, 3).tolist()} (M={Mn}); component {w} off"})
        # successive samples must be independent: product of the centred hard-class sizes of disjoint pairs
        if Mn >= 2000 and not (cfg.get("stratified_sampling") == "by_label" and eff == "replacement"):
            sd = np.maximum(sizes[:, :2].std(axis=0, ddof=1), 1e-9)
            z = (sizes[:, :2] - sizes[:, :2].mean(axis=0)) / sd
            pairs = np.clip(z[0:-1:2] * z[1::2], -16.0, 16.0) + 16.0
            ok, mm, tol = ST.mean_test(pairs, np.full(2, 16.0), 32.0)
            n_tests += 2
            if not ok.all():
                w = int(np.argmin(ok))
                viol.append({"invariant": "C11.samples_independent", "tags": tags,
                             "detail": f"lag-1 correlation of the {'positive' if w == 0 else 'negative'} class size between successive samples is "
                                       f"{mm[w] - 16.0:.3f} +- {tol[w]:.3f}, expected 0 (M={Mn})"})
        # single-pass sampling stratified by label draws every score's multiplicity on its own with fixed class targets:
        # the two class sizes of one sample are independent (without stratification the classes share one binomial split
        # of the total and are negatively correlated by construction, so nothing is asked there)
        if Mn >= 2000 and eff == "single_pass" and cfg.get("stratified_sampling") == "by_label" and not smoothing:
            sd = np.maximum(sizes[:, :2].std(axis=0, ddof=1), 1e-9)
            z = (sizes[:, :2] - sizes[:, :2].mean(axis=0)) / sd
            prod = np.clip(z[:, 0] * z[:, 1], -16.0, 16.0)[:, None] + 16.0
            ok, mm, tol = ST.mean_test(prod, np.full(1, 16.0), 32.0)
            n_tests += 1
            if not ok.all():
                viol.append({"invariant": "C11.classes_independent", "tags": tags,
                             "detail": f"correlation between the positive and the negative class size within one single-pass sample is "
                                       f"{mm[0] - 16.0:.3f} +- {tol[0]:.3f}, expected 0 (M={Mn})"})
    trace = [["stat", tags, Mn, hashlib.sha1(cp.tobytes() + cn.tobytes() + sizes.tobytes()).hexdigest()[:16]]]
    return {
        "violations": viol, "trace": trace,
        "stats": {"ops": Mn, "draws": info["draws"], "forced": 0, "samples_checked": Mn, "faults": {}, "probes": {},
                  "stat_tests": n_tests},
        "signature": hashlib.sha1(json.dumps([tags, npos, nneg, scn["object"]["nb_easy_pos"], scn["object"]["nb_easy_neg"]]).encode()).hexdigest(),
        "nontrivial": True,
        "states": [f"stat|{tags['method']}|{tags['strat']}|{smoothing}|{size_class_of(src)}"],
    }


# --------------------------------------------------------------------------
# minimisation


def shrink(scn):
    if scn.get("stat"):
        if scn["M"] > 2000:
            yield SH.with_path(scn, ["M"], max(2000, scn["M"] // 2))
        return
    ops = scn["ops"]
    for cand in SH.drop_chunks(ops, min_len=1):
        yield SH.with_path(scn, ["ops"], cand)
    for i, op in enumerate(ops):
        if op["op"] != "sample":
            continue
        for r in SH.shrink_int(op.get("repeat", 1), lo=1):
            yield SH.with_path(scn, ["ops", i, "repeat"], r)
        for cand in SH.drop_chunks(op.get("faults", [])):
            yield SH.with_path(scn, ["ops", i, "faults"], cand)
        cfg = op["cfg"]
        if cfg.get("smoothing"):
            yield SH.with_path(scn, ["ops", i, "cfg", "smoothing"], False)
        if cfg.get("stratified_sampling"):
            yield SH.with_path(scn, ["ops", i, "cfg", "stratified_sampling"], None)
    # unused objects
    used = {op["obj"] for op in ops if "obj" in op}
    if len(scn["objects"]) > 1 and len(used) == 1:
        keep = used.pop()
        c = copy.deepcopy(scn)
        c["objects"] = [c["objects"][keep]]
        for op in c["ops"]:
            if "obj" in op:
                op["obj"] = 0
        yield c
    for oi, o in enumerate(scn["objects"]):
        for key in ("pos", "neg"):
            for cand in SH.drop_chunks(o[key], min_len=0 if o.get("replacement_only") else 1):
                yield SH.with_path(scn, ["objects", oi, key], cand)
        for key in ("nb_easy_pos", "nb_easy_neg"):
            for c_ in SH.shrink_int(o.get(key, 0)):
                yield SH.with_path(scn, ["objects", oi, key], c_)
        if o.get("presorted"):
            yield SH.with_path(scn, ["objects", oi, "presorted"], False)
        for key in ("score_class", "equal_class"):
            if o.get(key) != "pos":
                yield SH.with_path(scn, ["objects", oi, key], "pos")
        if o.get("dtype") == "float64":
            for key in ("pos", "neg"):
                for cand in SH.simplify_numbers(o[key]):
                    yield SH.with_path(scn, ["objects", oi, key], cand)


def sample_view(scn, res):
    return {"scenario": scn, "signature": res.get("signature"), "violations": [v["invariant"] for v in res["violations"]]}
