"""C14 - bootstrapped metrics/intervals are what the sampler and the CI formula produce.

System: real Scores/GroupScores.bootstrap_metric and bootstrap_ci.
Seams: sampler callback (identity, counting, recording wrapper around every built-in
configuration, failing), metric callback (recording; NaN / raise / re-enter / RNG
consuming on its k-th call), global RNG (forced outcomes, interference), line-event
interrupts.  Oracle: rows matched to the recorded samples, independent CI formulas on
the recorded replicates, fail-or-correct under callback faults, reproducibility.
"""

import copy
import hashlib
import json

import numpy as np

from .. import model as M
from .. import shrink as SH
from ..boot import lib
from ..ops import run_op
from . import c11, c12

ID = "C14"
TIERS = {
    "quick": {"runs": 7000, "selftest": 200, "budget_s": 240, "chunk": 100},
    "thorough": {"runs": 110000, "selftest": 1000, "budget_s": 1500, "chunk": 250},
}
RULE = (
    "run i is generated from SHA-256(VERIF_SEED:C14:i): one Scores or GroupScores source and 1-5 operations "
    "(bootstrap_metric / bootstrap_ci; metric by name with kwargs or recording callable with scalar/vector/matrix output; "
    "sampler identity / counting / recording wrapper around a built-in configuration / built-in string; nb_samples 1-60; "
    "quantile/bc/bca; scalar or vector alpha) with 0-3 planned faults (callback NaN/raise/re-enter/RNG use on the k-th call, "
    "forced draws, interference, line-event interrupt) plus reseeds. Non-trivial: every run (each has >= 1 bootstrap loop); "
    "distinct = distinct abstract trace signatures (op, metric, sampler class, method, faults fired, outcome class)."
     " Later rounds added: exception types for failing callbacks, re-entrant double bootstrap, mixed-identity / recycling / unhashable samplers, callable sampler x stratification flag, "
    "user subclasses (own metric, overridden metric), sources on a large offset, skewed / infinite / tuple- and list-valued / type-varying metrics, alpha from 1e-12 to 0.99, runaway guard."
    " Round 14: the same bootstrap_ci call twice with 1100-1500 thresholds that agree at both ends and differ in the interior (2% of scenarios)."
)
COMPONENTS = {
    "real": ["Scores/GroupScores.bootstrap_metric, bootstrap_ci, bootstrap_sample, utils.bootstrap_ci (from /repo working tree)",
             "numpy global RandomState (faithful path)"],
    "stub": ["sampler callbacks", "metric callbacks", "forced draw outcomes", "interference", "SimInterrupt/MemoryError at planned line events"],
}
ASSUMPTIONS = [
    "for built-in string samplers with metrics given by name only shape, reproducibility and CI-of-own-replicates (same seed) are asserted; rows are tied to samples through the callback seams",
    "hash-seed dependent nondeterminism is reported by the runner's determinism legs as HARNESS-ERROR nondeterminism (exit 2), which for C14 is to be read as its reproducibility clause failing",
]
FLAKY_INVARIANTS = {"C14.reproducible"}
NONDETERMINISM_IS_VIOLATION = True
PROBES = ["identity_sampler", "counting_sampler", "recording_builtin", "builtin_string", "named_metric", "callable_metric",
          "group_source", "nan_replicate", "callback_raise_fired", "callback_reenter_fired", "callback_rng_fired", "interrupt_fired",
          "z0_infinite", "vector_alpha", "ci_checked", "rows_checked"]

SCORE_NAMED = ["tpr", "fnr", "tnr", "fpr", "topr", "tonr", "tar", "frr", "far", "trr", "acceptance_rate", "rejection_rate"]
THR_AT = ["threshold_at_fpr", "threshold_at_fnr", "threshold_at_tpr", "threshold_at_tnr"]
CALLABLES = ["mean_pos", "sizes", "fnr_fpr_mat", "py_float", "int_count", "spread", "spread_or_zero", "max_mult4", "inv_spread", "tuple_rates", "list_rates", "max_native", "max_native"]
GROUP_CALLABLES = ["groupwise_fnr", "group_sizes"]


# --------------------------------------------------------------------------
# generation


def gen_metric(rnd, is_group):
    r = rnd.random()
    thr = c12.gen_thr(rnd)
    if thr["shape"] == [0]:
        thr = {"shape": [2], "data": [0.0, 1.0]}
    if is_group and r < 0.35:
        return {"name": rnd.choice(c12.GROUP_METRICS), "kwargs": {"threshold": thr}}
    if is_group and r < 0.5:
        return {"callable": rnd.choice(GROUP_CALLABLES), "kwargs": {"threshold": thr}}
    if r < 0.6:
        k = rnd.random()
        if k < 0.55:
            return {"name": rnd.choice(SCORE_NAMED), "kwargs": {"threshold": thr}}
        if k < 0.75:
            nm = rnd.choice(THR_AT)
            arg = nm.split("_")[-1]
            kw = {arg: {"shape": [2], "data": [round(rnd.uniform(0.05, 0.95), 2), round(rnd.uniform(0.05, 0.95), 2)]} if rnd.random() < 0.5
                  else {"shape": [], "data": [round(rnd.uniform(0.05, 0.95), 2)]}}
            if rnd.random() < 0.5:
                kw["method"] = rnd.choice(["linear", "lower", "higher"])
            return {"name": nm, "kwargs": kw}
        if k < 0.9:
            lo = round(rnd.uniform(0, 0.5), 2)
            return {"name": "auc", "kwargs": {"lower": lo, "upper": round(rnd.uniform(lo + 0.1, 1.0), 2)} if rnd.random() < 0.6 else {}}
        return {"name": "eer", "kwargs": {}}
    return {"callable": rnd.choice(CALLABLES), "kwargs": {"threshold": thr} if rnd.random() < 0.7 else {}}


def gen_sampler(rnd, is_group, big):
    r = rnd.random()
    # a callable sampler replaces the built-in resampling altogether: flags of the built-in methods that are set on
    # the same configuration (stratification) have nothing to act on
    outer = rnd.choice([None, None, None, "by_label"] + (["by_group", "by_group"] if is_group else []))
    if r < 0.15:
        return {"callable": "identity", "outer_strat": outer}
    if r < 0.35:
        return {"callable": "counting", "mixed": rnd.random() < 0.4, "outer_strat": outer}
    method = rnd.choice(["replacement", "single_pass", "dynamic"] + ([] if is_group else ["proportion"]))
    strat = rnd.choice([None, None, "by_label"] + (["by_group"] if is_group else []))
    inner = {"sampling_method": method, "stratified_sampling": strat}
    if method == "proportion":
        inner["ratio"] = rnd.choice([0.3, 0.5, 0.8])
    if not is_group and method in ("replacement", "dynamic") and rnd.random() < 0.1:
        inner["smoothing"] = True
    if r < 0.7:
        return {"callable": "recording", "inner": inner, "outer_strat": outer}
    return inner


def gen_fault(rnd, callable_metric, callable_sampler, builtin):
    kinds = ["interrupt"]
    if callable_metric:
        kinds += ["callback_nan", "callback_raise", "callback_reenter", "callback_rng"] * 2
    if callable_sampler:
        kinds += ["sampler_raise"]
    if builtin:
        kinds += ["draw", "draw", "interference"]
    k = rnd.choice(kinds)
    if k == "interrupt":
        return {"kind": "interrupt", "frac": round(rnd.random(), 3), "exc": rnd.choice(["SimInterrupt", "MemoryError"])}
    if k == "draw":
        f = {"kind": rnd.choice(c11.DRAW_FAULTS[:13])}
        if rnd.random() < 0.5:
            f["at"] = rnd.randint(0, 40)
        else:
            f["every"] = rnd.choice([1, 2, 3, 5])
            f["offset"] = rnd.randint(0, 4)
        return f
    if k == "interference":
        return {"kind": "interference", "at": rnd.randint(0, 40), "k": rnd.randint(1, 4)}
    return {"kind": k, "call": rnd.randint(0, 12), "exc": rnd.choice(list(EXC_TYPES))}


def generate(rnd, tier):
    is_group = rnd.random() < 0.35
    big = rnd.random() < (0.2 if is_group else 0.08)  # large grouped sources: where "dynamic" resolves differently per class
    if is_group:
        obj = c12.gen_gs(rnd, big)
        obj["swaps"] = 0
        # every group gets both classes so that by_group/single_pass are inside the quantifier
        labs = c12.all_labels(obj)
        intlike = obj.get("dtype", "float64") != "float64"
        for k, g in enumerate(labs):
            if g not in obj["pos_groups"]:
                obj["pos"].append(10 + k if intlike else float(10 + k))
                obj["pos_groups"].append(g)
            if g not in obj["neg_groups"]:
                obj["neg"].append((20 + k if obj["dtype"].startswith("u") else -10 - k) if intlike else float(-10 - k))
                obj["neg_groups"].append(g)
        obj.pop("perm", None)
        obj.pop("group_names", None)
        obj["via"] = "init"
        obj["kind"] = "group"
    else:
        obj = c11.gen_source(rnd, "large" if big else rnd.choice(["tiny", "small", "small"]), False, allow_extreme=False)
        obj["kind"] = "scores"
    obj["subclass"] = rnd.random() < 0.1
    offset = 0
    if not is_group and obj.get("dtype", "float64") in ("float64", "int64") and rnd.random() < 0.1:
        # scores sitting on a large offset (timestamps, raw counts, log-likelihoods): metrics such as thresholds and
        # mean scores are then large compared with their bootstrap spread
        offset = rnd.choice([-1, 1]) * 10 ** rnd.randint(4, 7)
        for key in ("pos", "neg"):
            obj[key] = [v + offset if obj.get("dtype") == "int64" else float(v) + float(offset) for v in obj[key]]
        obj["offset"] = offset
    fault_free = rnd.random() < 0.34
    ops = []
    for _ in range(rnd.randint(1, 5)):
        if rnd.random() < 0.12:
            ops.append({"op": "reseed", "seed": rnd.randrange(2**31)})
            continue
        metric = gen_metric(rnd, is_group)
        if obj.get("subclass") and not is_group and len(obj.get("neg") or []) >= 2 and rnd.random() < 0.25:
            metric = {"name": "neg_tail", "kwargs": {}}
        elif obj.get("subclass") and rnd.random() < 0.3:
            metric = {"name": "tnr", "kwargs": {"threshold": c12.gen_thr(rnd) if rnd.random() < 0.7 else {"shape": [], "data": [0.0]}}}
            if metric["kwargs"]["threshold"]["shape"] == [0]:
                metric["kwargs"]["threshold"] = {"shape": [2], "data": [0.0, 1.0]}
        elif obj.get("subclass") and rnd.random() < 0.5:
            metric = {"name": "extra_metric", "kwargs": {"threshold": c12.gen_thr(rnd) if rnd.random() < 0.7 else {"shape": [], "data": [0.0]}}}
            if metric["kwargs"]["threshold"]["shape"] == [0]:
                metric["kwargs"]["threshold"] = {"shape": [2], "data": [0.0, 1.0]}
        if offset and rnd.random() < 0.6:
            if rnd.random() < 0.5:
                nm = rnd.choice(THR_AT)
                metric = {"name": nm, "kwargs": {nm.split("_")[-1]: {"shape": [], "data": [round(rnd.uniform(0.05, 0.95), 2)]}}}
            else:
                metric = {"callable": "mean_pos", "kwargs": {}}
        sampler = gen_sampler(rnd, is_group, big)
        if metric.get("name") == "neg_tail":
            # (class sizes must not change from sample to sample: the metric's shape is the tail's length)
            sampler = {"callable": "counting", "mixed": False, "outer_strat": None}
        if is_group and big and rnd.random() < 0.5:
            # the method-resolution interplay: "dynamic" is resolved differently by Scores and GroupScores (by_group forces
            # replacement); a built-in configuration observed through a recording metric
            sampler = {"sampling_method": "dynamic", "stratified_sampling": rnd.choice(["by_group", "by_group", "by_label", None])}
            metric = {"callable": rnd.choice(GROUP_CALLABLES), "kwargs": {"threshold": {"shape": [], "data": [0.0]}}}
        if sampler.get("callable") == "counting" and not sampler.get("mixed") and "name" in metric and not is_group and rnd.random() < 0.7:
            sampler[rnd.choice(["recycle", "recycle", "flip"])] = True
        nb = rnd.randint(1, 12 if big else 60)
        if metric.get("name") == "eer":
            nb = min(nb, 12)
        cfg = {"nb_samples": nb, "bootstrap_method": rnd.choice(["quantile", "bc", "bca"])}
        op = {"op": rnd.choice(["bootstrap_metric", "bootstrap_ci", "bootstrap_ci"]), "metric": metric, "sampler": sampler, "cfg": cfg,
              "alpha": round(rnd.uniform(0.01, 0.5), 3) if rnd.random() < 0.85 else rnd.choice([0.5, 0.75, 0.95, 0.001, 1e-5, 1e-7, 1e-9, 1e-12, round(rnd.uniform(0.5, 0.99), 2)])}
        if op["alpha"] < 1e-3 and "callable" not in metric and "callable" not in sampler:
            op["alpha"] = 0.001  # (levels far in the tails only where a callback can stop an operation that keeps drawing)
        if op["op"] == "bootstrap_ci" and cfg["bootstrap_method"] == "quantile" and rnd.random() < 0.25:
            op["alpha"] = [round(rnd.uniform(0.01, 0.5), 3) for _ in range(rnd.randint(1, 3))]
        if not is_group and rnd.random() < 0.04:
            # extreme corner of the bca formula: skewed replicates, levels far in the tails (the corrected levels need not be
            # ordered there, and the formula says what comes out)
            metric = {"callable": "max_mult4", "kwargs": {}}
            sampler = {"callable": "recording", "inner": {"sampling_method": "replacement", "stratified_sampling": None}} if rnd.random() < 0.6 else \
                {"sampling_method": "replacement", "stratified_sampling": None}
            cfg = {"nb_samples": rnd.randint(6, 40), "bootstrap_method": "bca"}
            op = {"op": "bootstrap_ci", "metric": metric, "sampler": sampler, "cfg": cfg, "alpha": rnd.choice([1e-5, 1e-7, 1e-9, 1e-12, 1e-3])}
        if not fault_free and rnd.random() < 0.6:
            builtin = "callable" not in sampler or sampler.get("callable") == "recording"
            op["faults"] = [gen_fault(rnd, "callable" in metric, "callable" in sampler, builtin) for _ in range(rnd.choice([1, 1, 2, 3]))]
        ops.append(op)
    if rnd.random() < 0.02:
        # the same call twice on one object with keyword arrays of more than a thousand thresholds that agree at both ends and
        # differ in the interior: a point estimate (or anything else) memoised on an abbreviated key - repr(), the first and last
        # elements, the shape - is stale in the second call
        n_ = rnd.randint(1100, 1500)
        a_ = [round(rnd.uniform(-7, 7), 2) for _ in range(n_)]
        b_ = a_[:4] + [round(rnd.uniform(-7, 7), 2) for _ in range(n_ - 8)] + a_[-4:]
        nm_ = rnd.choice(["tpr", "fnr", "tnr", "fpr"])
        smp_ = rnd.choice([{"sampling_method": "replacement", "stratified_sampling": None},
                           {"callable": "recording", "inner": {"sampling_method": "replacement", "stratified_sampling": None}}])
        cfg_ = {"nb_samples": rnd.randint(4, 10), "bootstrap_method": rnd.choice(["bc", "bca"])}
        for d_ in (a_, b_):
            ops.append({"op": "bootstrap_ci", "metric": {"name": nm_, "kwargs": {"threshold": {"shape": [n_], "data": d_}}},
                        "sampler": copy.deepcopy(smp_), "cfg": dict(cfg_), "alpha": 0.1})
    if not any(o["op"] != "reseed" for o in ops):
        ops.append({"op": "bootstrap_ci", "metric": {"name": "fnr", "kwargs": {"threshold": {"shape": [], "data": [0.0]}}},
                    "sampler": {"callable": "identity"}, "cfg": {"nb_samples": 5, "bootstrap_method": "bca"}, "alpha": 0.05})
    return {"np_seed": rnd.randrange(2**31), "object": obj, "ops": ops}


# --------------------------------------------------------------------------
# callbacks


class CallbackFault(Exception):
    pass


class RunawayGuard(Exception):
    """Raised by a recording callback once it has been invoked far more often than nb_samples allows: an operation that
    keeps drawing (or evaluating) without bound is stopped from inside, deterministically, instead of running into the
    wall-clock limit of the harness."""


# user code fails in many ways; some exception types have a meaning of their own inside loops and iterators
EXC_TYPES = {"CallbackFault": CallbackFault, "StopIteration": StopIteration, "ValueError": ValueError, "KeyError": KeyError,
             "IndexError": IndexError, "ZeroDivisionError": ZeroDivisionError, "RuntimeError": RuntimeError}


def base_metric(name, L):
    if name == "mean_pos":
        return lambda s, **kw: float(np.mean(s.pos)) if len(s.pos) else float("nan")
    if name == "sizes":
        return lambda s, **kw: np.array([len(s.pos), len(s.neg), s.nb_easy_pos, s.nb_easy_neg], dtype=float)
    if name == "fnr_fpr_mat":
        return lambda s, threshold=0.0, **kw: np.stack([np.asarray(s.fnr(threshold), dtype=float), np.asarray(s.fpr(threshold), dtype=float)], axis=0)
    if name == "py_float":
        return lambda s, threshold=0.0, **kw: float(np.sum(np.asarray(s.tpr(threshold))))
    if name == "int_count":
        return lambda s, **kw: int(len(s.pos) + 2 * len(s.neg))
    if name == "spread":
        return lambda s, **kw: np.array([[s.pos[-1] - s.pos[0] if len(s.pos) else np.nan], [s.neg[-1] - s.neg[0] if len(s.neg) else np.nan]], dtype=float)
    if name == "spread_or_zero":
        # a guard returning a Python int in the degenerate case: the return *type* depends on the sample (never on the
        # source alone: resamples of a constant class are constant)
        return lambda s, **kw: 0 if len(s.pos) == 0 or s.pos[0] == s.pos[-1] else float(s.pos[-1] - s.pos[0]) / 3.0
    if name == "max_native":
        # an order statistic in the scores' own dtype (np.uint8 for 8-bit match scores, np.float32, ...), not a float
        return lambda s, **kw: s.pos[-1] if len(s.pos) else (s.neg[0] if len(s.neg) else float("nan"))
    if name == "tuple_rates":
        # a tuple of arrays: the metric's own shape is (2,) + threshold shape
        return lambda s, threshold=0.0, **kw: (np.asarray(s.fnr(threshold), dtype=float), np.asarray(s.fpr(threshold), dtype=float))
    if name == "list_rates":
        return lambda s, threshold=0.0, **kw: [np.asarray(s.tpr(threshold), dtype=float), np.asarray(s.tnr(threshold), dtype=float), np.asarray(s.fpr(threshold), dtype=float)]
    if name == "inv_spread":
        # infinite on resamples whose positives are all equal (never NaN): +-inf replicates are ordinary values for the
        # order statistics and for the count that defines p0
        return lambda s, **kw: float(np.float64(1.0) / np.float64(s.pos[-1] - s.pos[0])) if len(s.pos) else float("nan")
    if name == "max_mult4":
        # heavily skewed replicates (mostly 0, rarely 16 or 81): the acceleration of bca comes close to its bound 1/6
        return lambda s, **kw: float((int(np.sum(s.pos == s.pos[-1])) - 1) ** 4) if len(s.pos) else float("nan")
    if name == "groupwise_fnr":
        return L.groupwise("fnr")
    if name == "group_sizes":
        return lambda s, **kw: np.array([[np.sum(s.pos_groups == g), np.sum(s.neg_groups == g)] for g in s.groups], dtype=float)
    raise KeyError(name)


class RecMetric:
    """Recording wrapper with planned misbehaviour on its k-th invocation."""

    def __init__(self, fn, faults, src, ctx):
        self.fn, self.src, self.ctx = fn, src, ctx
        self.calls = []  # (sample, kwargs, value or exception)
        self.faults = {f["call"]: f for f in faults or [] if f["kind"].startswith("callback_")}
        self.fired = []
        self.limit, self.runaway = None, False

    def __call__(self, sample, **kwargs):
        k = len(self.calls)
        if self.limit is not None and k >= self.limit:
            self.runaway = True
            raise RunawayGuard(f"metric invoked {k + 1} times")
        f = self.faults.get(k)
        if f is not None and f["kind"] == "callback_raise":
            self.fired.append("callback_raise")
            self.calls.append((sample, kwargs, CallbackFault(f"metric call {k}")))
            raise EXC_TYPES.get(f.get("exc"), CallbackFault)(f"planned failure of metric call {k}")
        if f is not None and f["kind"] == "callback_reenter":
            # nested operations on the shared source while the library is mid-loop
            self.fired.append("callback_reenter")
            self.src.cm(np.array([0.0, 1.0]))
            self.src.bootstrap_sample(lib().BootstrapConfig(sampling_method="replacement"))
            # a double bootstrap: the callback runs bootstrap_metric / bootstrap_ci on the very object being bootstrapped
            inner_cfg = lib().BootstrapConfig(nb_samples=2, bootstrap_method="quantile", sampling_method="replacement")
            self.src.bootstrap_metric("tpr", config=inner_cfg, threshold=0.25)
            self.src.bootstrap_ci("fpr", config=inner_cfg, threshold=-0.25)
            if hasattr(self.src, "groups") and len(self.src.groups):
                self.src[self.src.groups[0]]
        if f is not None and f["kind"] == "callback_rng":
            self.fired.append("callback_rng")
            np.random.random_sample(3)  # a callback that shares the global stream
        v = self.fn(sample, **kwargs)
        if f is not None and f["kind"] == "callback_nan":
            a = np.asarray(v)
            if a.dtype.kind == "f":
                self.fired.append("callback_nan")
                v = np.full(a.shape, np.nan) if a.ndim else float("nan")
        self.calls.append((sample, kwargs, v))
        return v


class RecSampler:
    def __init__(self, kind, inner_config, spec, faults):
        self.kind, self.inner, self.spec = kind, inner_config, spec
        self.inputs, self.outputs = [], []
        self.raise_at = {f["call"] for f in faults or [] if f["kind"] == "sampler_raise"}
        self.raise_exc = next((f.get("exc") for f in faults or [] if f["kind"] == "sampler_raise"), None)
        self.fired = []
        self.mixed = bool(spec.get("__mixed_identity")) if isinstance(spec, dict) else False
        # a stateful sampler that owns one work object and overwrites its arrays for every draw (legal: each call
        # returns a Scores object holding the new resample); what each call returned is recorded as a snapshot
        self.recycle = bool(spec.get("__recycle")) if isinstance(spec, dict) else False
        self.work = None
        self.limit, self.runaway = None, False
        self.flip = bool(spec.get("__flip")) if isinstance(spec, dict) else False

    def __call__(self, source, **kw):
        k = len(self.inputs)
        if self.limit is not None and k >= self.limit:
            self.runaway = True
            raise RunawayGuard(f"sampler invoked {k + 1} times")
        self.inputs.append(source)
        if k in self.raise_at:
            self.fired.append("sampler_raise")
            self.outputs.append(None)
            raise EXC_TYPES.get(self.raise_exc, CallbackFault)(f"planned failure of sampler call {k}")
        if self.kind == "identity":
            out = source
        elif self.kind == "recording":
            out = source.bootstrap_sample(self.inner)
        elif self.mixed and k % 3 == 1:
            out = source  # a legal sampler may hand back the source itself for some replicates
        else:  # counting: the j-th call returns a distinct, legal, deterministic resample
            out = counting_sample(source, k, flip=self.flip)
            if self.flip and not self.recycle:
                self.outputs.append(counting_sample(source, k, flip=True))  # snapshot of what is returned, flags included
                return out
            if self.recycle:
                if self.work is None:
                    self.work = counting_sample(source, k)
                self.work.pos[:] = out.pos
                self.work.neg[:] = out.neg
                self.outputs.append(out)  # the snapshot: what the returned object held when it was returned
                return self.work
        self.outputs.append(out)
        return out


def counting_sample(source, k, flip=False):
    L = lib()
    pos, neg = np.asarray(source.pos), np.asarray(source.neg)
    if flip and not isinstance(source, L.GroupScores):
        # a sampler whose resamples use the other decision convention (negated "distance" representation)
        other = "neg" if source.score_class.value == "pos" else "pos"
        ip = (np.arange(len(pos)) * (k + 2) + k) % max(len(pos), 1)
        ineg = (np.arange(len(neg)) * (k + 3) + 2 * k) % max(len(neg), 1)
        return L.Scores(-pos[ip], -neg[ineg], nb_easy_pos=source.nb_easy_pos, nb_easy_neg=source.nb_easy_neg,
                        score_class=other, equal_class=source.equal_class)
    ip = (np.arange(len(pos)) * (k + 2) + k) % max(len(pos), 1)
    ineg = (np.arange(len(neg)) * (k + 3) + 2 * k) % max(len(neg), 1)
    if isinstance(source, L.GroupScores):
        return L.GroupScores(pos[ip], neg[ineg], pos_groups=source.pos_groups[ip], neg_groups=source.neg_groups[ineg],
                             score_class=source.score_class, equal_class=source.equal_class, group_names=source.groups)
    return L.Scores(pos[ip], neg[ineg], nb_easy_pos=source.nb_easy_pos, nb_easy_neg=source.nb_easy_neg,
                    score_class=source.score_class, equal_class=source.equal_class)


def dec_kwargs(kw):
    out = {}
    for k, v in kw.items():
        if isinstance(v, dict) and "shape" in v:
            a = np.asarray(v["data"], dtype=float).reshape(v["shape"])
            out[k] = a if a.ndim else float(a)
        else:
            out[k] = v
    return out


def my_eval(name, sample, kwargs, owner=None):
    # metric names are resolved on the class of the object that is bootstrapped (a user subclass may add a metric or
    # override one); resamples are plain library objects
    if owner is not None and hasattr(owner, name):
        return getattr(owner, name)(sample, **kwargs)
    return getattr(type(sample), name)(sample, **kwargs)


def rows_equal(row, value, dtype):
    try:
        v = np.asarray(value)
        if v.shape != np.shape(row):
            return False
        if np.asarray(row).dtype.kind in "iu" and v.dtype.kind == "f" and not np.array_equal(v, np.trunc(v)):
            return False  # a fractional metric value stored in an integer row was truncated
        return np.array_equal(np.asarray(row), v.astype(dtype), equal_nan=True)
    except Exception:  # noqa: BLE001
        return False


# --------------------------------------------------------------------------
# execution


def execute(scn, ctx):
    L = lib()
    seam = ctx.seam
    seam.seed(scn["np_seed"])
    spec = scn["object"]
    is_group = spec.get("kind") == "group"
    build = M.build_group_scores if is_group else M.build_scores
    src, callers = build(spec)
    cfp = callers.fp0
    if spec.get("subclass"):
        # a user subclass adding its own metric: names must be resolved on the object's own class
        base_cls = type(src)

        class UserScores(base_cls):
            def extra_metric(self, threshold):
                return 2.0 * np.asarray(base_cls.fnr(self, threshold), dtype=float) + 0.125

            def neg_tail(self):  # a view of the object's own array, not a copy
                return self.neg[-2:]

            def tnr(self, threshold):  # an override of a metric the library defines itself (a smoothed rate, say)
                return 0.5 * np.asarray(base_cls.tnr(self, threshold), dtype=float) + 0.25

        src.__class__ = UserScores
    viol, trace, sig = [], [], []
    probes, faults = {}, {}
    n_draws = n_forced = n_lines = 0
    states = set()

    def probe(name, k=1):
        probes[name] = probes.get(name, 0) + k

    if is_group:
        probe("group_source")

    held = []  # arrays returned by earlier calls: later calls on the same object must not change them

    for step, op in enumerate(scn["ops"]):
        for hv in list(held):
            if M.canon(hv[1]) != hv[2]:
                viol.append({"invariant": "C14.result_stable", "tags": {"op": op["op"]},
                             "detail": f"the array returned at op {hv[0]} was changed by later calls (before op {step})"})
                held.remove(hv)
        if op["op"] == "reseed":
            seam.seed(op["seed"])
            trace.append([step, "reseed"])
            sig.append("reseed")
            continue
        kind = op["op"]
        mspec, sspec, cfg = op["metric"], op["sampler"], op["cfg"]
        fl = op.get("faults") or []
        kwargs = dec_kwargs(mspec.get("kwargs", {}))
        kw_fp = M.fingerprint([v for v in kwargs.values() if isinstance(v, np.ndarray)])
        named = "name" in mspec
        mname = mspec.get("name") or mspec["callable"]
        s_kind = sspec.get("callable") or "builtin"
        tags = {"op": kind, "metric": mname, "sampler": s_kind, "method": cfg["bootstrap_method"]}
        alpha = op.get("alpha", 0.05)
        alpha_arg = np.asarray(alpha) if isinstance(alpha, list) else alpha
        if isinstance(alpha, list):
            probe("vector_alpha")
        probe({"identity": "identity_sampler", "counting": "counting_sampler", "recording": "recording_builtin", "builtin": "builtin_string"}[s_kind])
        probe("named_metric" if named else "callable_metric")
        fp_before = M.fingerprint(src)
        has_intr = any(f["kind"] == "interrupt" for f in fl)

        def make(target):
            """Fresh callbacks + the call to perform, bound to `target` (the shared source or a twin)."""
            inner_cfg = M.build_config(dict(sspec.get("inner", {}), nb_samples=1)) if s_kind == "recording" else None
            sampler = RecSampler(s_kind, inner_cfg, dict(spec, __mixed_identity=bool(sspec.get("mixed")),
                                                         __recycle=bool(sspec.get("recycle")) and named and not is_group,
                                                         __flip=bool(sspec.get("flip")) and named and not is_group), fl) if s_kind != "builtin" else None
            config = M.build_config(dict(sspec if s_kind == "builtin" else {}, **cfg), sampler=sampler) if s_kind == "builtin" else \
                M.build_config(dict(cfg, sampling_method={"callable": s_kind}, stratified_sampling=sspec.get("outer_strat")), sampler=sampler)
            metric = mname if named else RecMetric(base_metric(mname, L), fl, target, ctx)
            for cb_ in (sampler, None if named else metric):
                if cb_ is not None:
                    cb_.limit = 6 * int(cfg["nb_samples"]) + 40  # estimate + replicates + nested re-entrant evaluations, with a wide margin
            if kind == "bootstrap_metric":
                call = lambda: target.bootstrap_metric(metric, config=config, **kwargs)  # noqa: E731
            else:
                call = lambda: target.bootstrap_ci(metric, alpha=alpha_arg, config=config, **kwargs)  # noqa: E731
            return call, sampler, metric

        state0 = seam.get_state()
        call, sampler, metric = make(src)
        twin_call = None
        if has_intr:
            twin, _ = build(spec)
            twin_call, _, _ = make(twin)
        ent0 = seam.entropy_requests
        res = run_op(ctx, call, fl, twin_call)
        n_draws += res["draws"]
        n_lines += res["line_events"]
        fired = [kd for _, kd in res["fired"]]
        n_forced += sum(1 for kd in fired if kd != "interference")
        if res["interrupted"]:
            fired.append("interrupt")
            probe("interrupt_fired")
        for o_ in (sampler, metric if not named else None):
            if o_ is not None:
                fired.extend(o_.fired)
        for kd in fired:
            faults[kd] = faults.get(kd, 0) + 1
        for kd, pn in (("callback_raise", "callback_raise_fired"), ("callback_reenter", "callback_reenter_fired"), ("callback_rng", "callback_rng_fired")):
            if kd in fired:
                probe(pn)
        control_fault = res["interrupted"] or "callback_raise" in fired or "sampler_raise" in fired

        def bad(name, detail, extra=None):
            viol.append({"invariant": f"C14.{name}", "detail": f"{detail} [op {step}]", "tags": dict(tags, **(extra or {}))})

        runaway = [cb_ for cb_ in (sampler, None if named else metric) if cb_ is not None and cb_.runaway]
        if runaway:
            who = "sampler" if runaway[0] is sampler else "metric"
            bad("one_row_per_sample", f"{kind} with nb_samples={cfg['nb_samples']} invoked the {who} more than {runaway[0].limit} times (stopped from inside the callback)")
            control_fault = True

        if seam.entropy_requests != ent0:
            bad("entropy_escape", "bootstrap code requested OS entropy (argument-less default_rng/RandomState): results cannot be reproducible for a fixed seed")
        if M.fingerprint(src) != fp_before or M.fingerprint(list(callers.values())) != cfp:
            bad("source_unchanged", f"{kind} changed the source object or caller arrays")
        if M.fingerprint([v for v in kwargs.values() if isinstance(v, np.ndarray)]) != kw_fp:
            bad("source_unchanged", f"{kind} changed a keyword-argument array")

        outcome = "ok" if res["ok"] else ("interrupted" if res["interrupted"] else "raise:" + type(res["value"]).__name__)
        nb = int(cfg["nb_samples"])
        if not res["ok"]:
            if not control_fault:
                # F11 as an exception: a NaN row (planned callback_nan) cannot be stored in a result array that took an
                # integer dtype from the metric of the original object
                f11 = ("callback_nan" in fired and not named and isinstance(res["value"], ValueError)
                       and "cannot convert float NaN to integer" in str(res["value"]))
                bad("raises", f"{kind}({mname}) raised {type(res['value']).__name__}: {res['value']}", {"f11_signature": True} if f11 else None)
        else:
            value = res["value"]
            # ---- what did the callbacks see?
            reps = est = None
            est_all = []
            if sampler is not None:
                if any(x is not src for x in sampler.inputs):
                    bad("sampler_on_source", "the configured sampler was invoked on an object other than the source")
                outs = [o_ for o_ in sampler.outputs if o_ is not None]
            else:
                outs = None
            if not named:
                calls = metric.calls
                for (smp, kw_seen, _) in calls:
                    if set(kw_seen) != set(kwargs) or any(kw_seen[k] is not kwargs[k] and not M.same(kw_seen[k], kwargs[k]) for k in kwargs):
                        bad("kwargs_forwarded", f"metric saw kwargs {sorted(kw_seen)} but {sorted(kwargs)} were passed")
                        break
                if s_kind == "identity":
                    # every call is on the source object; with a misbehaving callback the mapping of calls to
                    # (probe, replicates, estimate) is not observable, so rows are only compared fault-free
                    vals = [v for (_, _, v) in calls]
                    est_all = vals[:1]
                    est = vals[0] if vals else None
                    reps = vals[1:nb + 1] if len(vals) > nb and not metric.fired else None
                elif s_kind == "counting" and outs is not None and any(o_ is src for o_ in outs):
                    # a custom sampler that hands back the source itself for some replicates: rows are matched to the
                    # recorded evaluations by object identity (any recorded value of that object is accepted)
                    by_id = {}
                    for (smp, _, v) in calls:
                        by_id.setdefault(id(smp), []).append(v)
                    on_src = by_id.get(id(src), [])
                    est = on_src[0] if on_src else None
                    est_all = on_src
                    stray = [smp for (smp, _, _) in calls if smp is not src and not any(smp is o_ for o_ in outs)]
                    if stray:
                        bad("rows_from_sampler", "metric was evaluated on an object the sampler did not produce")
                    if len(outs) != nb:
                        bad("one_row_per_sample", f"sampler produced {len(outs)} samples for nb_samples={nb}")
                        reps = None
                    elif any(id(o_) not in by_id for o_ in outs):
                        bad("rows_from_sampler", f"sample {[j for j, o_ in enumerate(outs) if id(o_) not in by_id][0]} produced by the sampler was never evaluated")
                        reps = None
                    else:
                        reps = [by_id[id(o_)][-1] if o_ is not src else by_id[id(o_)][0] for o_ in outs]
                        if not any(isinstance(v, BaseException) for v in reps) and kind == "bootstrap_metric":
                            arr_ = np.asarray(res["value"])
                            for j, o_ in enumerate(outs):
                                if arr_.ndim >= 1 and arr_.shape[0] == nb and not any(rows_equal(arr_[j], c_, arr_.dtype) for c_ in by_id[id(o_)] if not isinstance(c_, BaseException)):
                                    bad("row_is_metric_of_sample", f"row {j} = {np.asarray(arr_[j]).tolist()} is not the metric of the {j}-th sample the sampler produced "
                                                                   f"({'the source object itself' if o_ is src else 'a resample'}): {np.asarray(by_id[id(o_)][0]).tolist()}")
                                    break
                        if metric.fired:
                            reps = None  # several evaluations of the source with a misbehaving callback: which one is which is not observable
                else:
                    on_src = [v for (smp, _, v) in calls if smp is src]
                    non_src = [(smp, v) for (smp, _, v) in calls if smp is not src]
                    # collapse consecutive evaluations of the same sample
                    col = []
                    for smp, v in non_src:
                        if not col or col[-1][0] is not smp:
                            col.append((smp, v))
                    est = on_src[0] if on_src else None
                    est_all = on_src  # which evaluation on the source serves as estimate is the library's business
                    if outs is not None:
                        if len(col) != len(outs) or any(a[0] is not b for a, b in zip(col, outs)):
                            bad("rows_from_sampler", f"metric was evaluated on {len(col)} sample objects, the sampler produced {len(outs)}; they are not the same objects in the same order")
                    else:
                        for smp, _ in col:
                            if not isinstance(smp, L.GroupScores if is_group else L.Scores) or (smp.score_class, smp.equal_class) != (src.score_class, src.equal_class):
                                bad("rows_from_sampler", "metric was evaluated on an object that is not a resample of the source")
                                break
                        else:
                            # built-in string sampler: what the metric saw must be something the *configured* sampler can
                            # produce, i.e. satisfy that configuration's contract (the per-sample invariants of C11 / C12)
                            tmp = []
                            inner_cfg = {k_: v_ for k_, v_ in sspec.items() if k_ in ("sampling_method", "stratified_sampling", "smoothing", "ratio")}
                            for smp, _ in col:
                                if is_group:
                                    c12.check_sample(src, c12.Model.from_object(src), inner_cfg, c12.effective(inner_cfg, src), smp, tmp, tags, f"op {step}")
                                else:
                                    c11.check_sample(src, fp_before, inner_cfg, c11.effective_method(inner_cfg, src), smp, None, tmp, tags)
                                if tmp:
                                    break
                            if tmp:
                                bad("sample_from_configured_sampler", f"a sample the metric was evaluated on violates the contract of the configured sampler "
                                                                      f"{inner_cfg}: {tmp[0]['invariant']}: {tmp[0]['detail']}")
                    reps = [v for _, v in col] if len(col) == nb else None
                    if len(col) != nb:
                        bad("one_row_per_sample", f"{len(col)} samples were evaluated for nb_samples={nb}")
            else:
                try:
                    est = my_eval(mname, src, kwargs, type(src))
                    est_all = [est]
                except Exception:  # noqa: BLE001
                    est = None
                if outs is not None:
                    try:
                        reps = [my_eval(mname, o_, kwargs, type(src)) for o_ in outs] if len(outs) == nb else None
                    except Exception:  # noqa: BLE001 - metric undefined on a sample: nothing to compare
                        reps = None
                    if s_kind != "identity" and len(outs) != nb:
                        bad("one_row_per_sample", f"sampler produced {len(outs)} samples for nb_samples={nb}")
            if reps is not None and any(isinstance(v, BaseException) for v in reps):
                reps = None
            # ---- the result itself
            if kind == "bootstrap_metric":
                arr = np.asarray(value)
                if arr.ndim < 1 or arr.shape[0] != nb:
                    bad("shape", f"bootstrap_metric returned shape {arr.shape}, nb_samples={nb}")
                elif est is not None and arr.shape[1:] != np.shape(np.asarray(est)):
                    bad("shape", f"rows have shape {arr.shape[1:]}, the metric returns {np.shape(np.asarray(est))}")
                elif reps is not None:
                    probe("rows_checked", nb)
                    for j in range(nb):
                        if not rows_equal(arr[j], reps[j], arr.dtype):
                            # finding F11: the result array takes the dtype of the metric of the *original* object; a metric that
                            # is integer-valued there and float-valued on a resample is truncated, row by row
                            f11 = (est is not None and not np.can_cast(np.asarray(reps[j]).dtype, np.asarray(est).dtype, "safe")
                                   and arr.dtype == np.asarray(est).dtype
                                   and all(rows_equal(arr[i_], np.asarray(reps[i_]).astype(arr.dtype), arr.dtype) for i_ in range(nb)))
                            bad("row_is_metric_of_sample", f"row {j} = {np.asarray(arr[j]).tolist()} but the metric of the {j}-th sample is {np.asarray(reps[j]).tolist()}",
                                {"f11_signature": True} if f11 else None)
                            break
                    if np.isnan(np.asarray(arr, dtype=float)).any():
                        probe("nan_replicate")
            else:
                ci = np.asarray(value, dtype=float)
                if est is not None:
                    yshape = np.shape(np.asarray(est))
                    ashape = np.shape(alpha_arg) if isinstance(alpha, list) else ()
                    if ci.shape != yshape + ashape + (2,):
                        bad("shape", f"bootstrap_ci returned shape {ci.shape}, expected {yshape + ashape + (2,)}")
                    elif reps is not None:
                        theta = np.stack([np.asarray(r, dtype=float) for r in reps], axis=0)
                        th = np.asarray(est, dtype=float)
                        probe("ci_checked")
                        method = cfg["bootstrap_method"]
                        # NumPy interpolates between the order statistics of a float32 / float16 replicate array in that
                        # precision: the formula is then only defined to that precision
                        widths = [np.asarray(v_).dtype.itemsize for v_ in list(reps) + [est] if np.asarray(v_).dtype.kind == "f"]
                        tol_ci = 1e-9 if not widths or min(widths) >= 8 else 4e-6 if min(widths) == 4 else 4e-3
                        exp = None
                        for cand in est_all or [est]:
                            if isinstance(cand, BaseException):
                                continue
                            th = np.asarray(cand, dtype=float)
                            if isinstance(alpha, list):
                                exp = np.stack([M.ref_ci(theta, th, a, method) for a in alpha], axis=-2)
                            else:
                                exp = M.ref_ci(theta, th, alpha, method)
                            if M.close(ci, exp, tol_ci):
                                break
                        if exp is not None and not M.close(ci, exp, tol_ci):
                            f11 = False
                            if est is not None and any(not np.can_cast(np.asarray(r).dtype, np.asarray(est).dtype, "safe") for r in reps):
                                # F11 again, seen through bootstrap_ci: the interval is the formula's on the truncated replicates
                                th_t = np.asarray(est, dtype=float)
                                theta_t = np.stack([np.asarray(r).astype(np.asarray(est).dtype).astype(float) for r in reps], axis=0)
                                exp_t = (np.stack([M.ref_ci(theta_t, th_t, a, method) for a in alpha], axis=-2) if isinstance(alpha, list)
                                         else M.ref_ci(theta_t, th_t, alpha, method))
                                # (NumPy interpolates the order statistics of a float32 / float16 array in that precision)
                                isz = np.asarray(est).dtype.itemsize if np.asarray(est).dtype.kind == "f" else 8
                                f11 = M.close(ci, exp_t, 1e-9 if isz >= 8 else 4e-6 if isz == 4 else 4e-3)
                            bad("ci_formula", f"bootstrap_ci = {ci.tolist()} but the {method} formula on the recorded replicates with the source metric as estimate gives {exp.tolist()}",
                                {"f11_signature": True} if f11 else None)
                        if method != "quantile" and theta.size:
                            fl_ = theta.reshape(theta.shape[0], -1)
                            p0 = np.mean(fl_ <= th.reshape(1, -1), axis=0)
                            if np.any((p0 == 0) | (p0 == 1)):
                                probe("z0_infinite")
                        if s_kind == "identity" and not fired and np.all(np.isfinite(th) | np.isnan(th)):
                            # (an infinite point estimate: the order statistics of identical infinities are NumPy's inf - inf)
                            point = np.broadcast_to(th[..., None] if not isinstance(alpha, list) else th[..., None, None], ci.shape)
                            if not np.array_equal(ci, point, equal_nan=True):
                                bad("identity_collapse", f"identity sampler: interval {ci.tolist()} != point estimate {th.tolist()}")
        # ---- fixed seed => same result (skip when an interrupt is planned: counted on a twin)
        if not has_intr and res["ok"] and not control_fault:
            after = seam.get_state()
            seam.set_state(state0)
            call2, _, _ = make(src)
            res2 = run_op(ctx, call2, fl, None)
            if not (res2["ok"] and M.same(res2["value"], res["value"])):
                bad("reproducible", f"same call from the same global RNG state returned a different result ({'raised ' + type(res2['value']).__name__ if not res2['ok'] else 'values differ'})")
            seam.set_state(after)
        # ---- built-in string sampler with named metric: CI of its own seeded replicates
        if kind == "bootstrap_ci" and s_kind == "builtin" and named and res["ok"] and not has_intr and not fired:
            after = seam.get_state()
            seam.set_state(state0)
            try:
                config = M.build_config(dict(sspec, **cfg))
                reps2 = np.asarray(src.bootstrap_metric(mname, config=config, **kwargs), dtype=float)
                est2 = np.asarray(my_eval(mname, src, kwargs, type(src)), dtype=float)
                method = cfg["bootstrap_method"]
                if isinstance(alpha, list):
                    exp = np.stack([M.ref_ci(reps2, est2, a, method) for a in alpha], axis=-2)
                else:
                    exp = M.ref_ci(reps2, est2, alpha, method)
                probe("ci_checked")
                if not M.close(np.asarray(res["value"], dtype=float), exp, 1e-9):
                    bad("ci_formula_seeded", f"bootstrap_ci = {np.asarray(res['value']).tolist()} but the {method} formula on bootstrap_metric's replicates from the same seed gives {exp.tolist()}")
            except Exception as e:  # noqa: BLE001
                bad("raises", f"bootstrap_metric({mname}) raised {type(e).__name__}: {e} although bootstrap_ci succeeded from the same seed")
            seam.set_state(after)
        if res["ok"] and not control_fault:
            held.append((step, res["value"], M.canon(res["value"])))
        trace.append([step, kind, tags, sorted(set(fired)), outcome,
                      M.digest(M.canon(res["value"]))[:16] if res["ok"] and not control_fault else None, res["draws"]])
        sig.append(f"{kind}|{mname}|{s_kind}|{sspec.get('inner', sspec).get('sampling_method', '')}|{sspec.get('inner', sspec).get('stratified_sampling', '')}|"
                   f"{cfg['bootstrap_method']}|{','.join(sorted(set(fired)))}|{outcome}")
        states.add(f"{'G' if is_group else 'S'}|{mname}|{s_kind}|{cfg['bootstrap_method']}|{kind}")
    seen, out = set(), []
    for x in viol:
        key = (x["invariant"], json.dumps(x.get("tags", {}), sort_keys=True))
        if key not in seen:
            seen.add(key)
            out.append(x)
    return {
        "violations": out, "trace": trace,
        "stats": {"ops": len(scn["ops"]), "draws": n_draws, "forced": n_forced, "line_events": n_lines, "faults": faults, "probes": probes},
        "signature": hashlib.sha1("\n".join(sig).encode()).hexdigest(), "nontrivial": True, "states": sorted(states),
    }


# --------------------------------------------------------------------------
# minimisation


def shrink(scn):
    ops = scn["ops"]
    for cand in SH.drop_chunks(ops, min_len=1):
        yield SH.with_path(scn, ["ops"], cand)
    for i, op in enumerate(ops):
        if op["op"] == "reseed":
            continue
        for cand in SH.drop_chunks(op.get("faults") or []):
            yield SH.with_path(scn, ["ops", i, "faults"], cand)
        for nb in SH.shrink_int(op["cfg"]["nb_samples"], lo=1):
            yield SH.with_path(scn, ["ops", i, "cfg", "nb_samples"], nb)
        if isinstance(op.get("alpha"), list):
            yield SH.with_path(scn, ["ops", i, "alpha"], op["alpha"][0])
        for k, v in (op["metric"].get("kwargs") or {}).items():
            if isinstance(v, dict) and v.get("shape") not in ([], None):
                yield SH.with_path(scn, ["ops", i, "metric", "kwargs", k], {"shape": [], "data": v["data"][:1] or [0.0]})
    o = scn["object"]
    if o.get("kind") == "group":
        for key, gkey in (("pos", "pos_groups"), ("neg", "neg_groups")):
            idx = list(range(len(o[key])))
            for keep in SH.drop_chunks(idx, min_len=1):
                c = copy.deepcopy(scn)
                c["object"][key] = [o[key][k] for k in keep]
                c["object"][gkey] = [o[gkey][k] for k in keep]
                yield c
    else:
        for key in ("pos", "neg"):
            for cand in SH.drop_chunks(o[key], min_len=1):
                yield SH.with_path(scn, ["object", key], cand)
        for key in ("nb_easy_pos", "nb_easy_neg"):
            for c_ in SH.shrink_int(o.get(key, 0)):
                yield SH.with_path(scn, ["object", key], c_)
    for key in ("score_class", "equal_class"):
        if o.get(key) != "pos":
            yield SH.with_path(scn, ["object", key], "pos")
    if o.get("dtype", "float64") == "float64":
        for key in ("pos", "neg"):
            for cand in SH.simplify_numbers(o[key]):
                yield SH.with_path(scn, ["object", key], cand)


def sample_view(scn, res):
    return {"scenario": scn, "signature": res.get("signature"), "violations": [v["invariant"] for v in res["violations"]]}
