"""C20 - synthetic datasets hit their specified operating points and proportions.

Simulation content: the sample() clauses.  The explicit `rng` argument is the seam:
the simulator passes a faithful seeded generator, an adversarial generator whose
outcomes are admissible for the requested distribution (binomial -> 0 / n, normal ->
no noise / +-sigma, choice -> one admissible category, shuffle -> identity / reverse /
rotation), or nothing, in which case the library's default_rng() request is answered
through the numpy.random seam.  The analytic clauses (inverse relations, roc(),
from_metrics) are evaluated on each run's parameters as by-products; they carry no
simulation content and are labelled as such.
"""

import hashlib
import json
import math

import numpy as np

from .. import model as M
from .. import shrink as SH
from .. import stats as ST
from ..boot import lib
from ..seams import SimGenerator

ID = "C20"
DELTA = ST.DELTA
TIERS = {
    "quick": {"runs": 40000, "stat_jobs": 32, "stat_M": 6000, "selftest": 16, "budget_s": 240, "chunk": 500},
    "thorough": {"runs": 600000, "stat_jobs": 128, "stat_M": 30000, "selftest": 64, "budget_s": 1500, "chunk": 2000},
}
RULE = (
    "run i is generated from SHA-256(VERIF_SEED:C20:i): one NormalDataset (mu in +-10, sigma in [0.05,20], p_pos in [0,1], "
    "n 1-500, both score directions) or from_metrics model (rates in [1e-6, 1-1e-6], supports 1-50), one BernoulliDataset and "
    "one CorrelatedBernoullilDataset (p, p1, p2 in [0,1] incl. 0 and 1, rho inside/outside the admissible interval with 1e-9 "
    "margin, random True/False, n at the call or in the class) and 3-8 sample() operations each under a generator kind "
    "(faithful seeded / adversarial admissible / none -> default_rng through the numpy.random seam). Non-trivial: >= 1 "
    "adversarial outcome fired or >= 2 sample operations; distinct = distinct abstract trace signatures (dataset, generator "
    "kind, fault kinds fired, random flag, outcome class, parameter class)."
     " Later rounds added (by-product clauses): tail rates 1e-12..1-1e-12, threshold dtypes, low-precision and integer model parameters, models on a large offset, NumPy integer supports; "
    "generators that raise, shuffle_identity/reverse/rotate, per-call overrides followed by plain calls."
)
COMPONENTS = {
    "real": ["score_analysis.experimental.datasets (from /repo working tree)", "scipy.stats.norm", "numpy Generator (faithful path)"],
    "stub": ["SimGenerator adversarial outcomes for binomial/normal/choice/shuffle", "deterministic answer to argument-less default_rng()"],
}
ASSUMPTIONS = [
    "analytic clauses are pure functions checked as by-products (no simulation content)",
    "the exact boundary of the admissible rho interval is left open (1e-9 margin on the joint probabilities)",
    "floor(n*p) accepts either neighbour when n*p is within 1e-9 of an integer",
]
PROBES = ["generator_failure", "adversarial_binomial", "adversarial_normal", "adversarial_choice", "adversarial_shuffle", "default_rng_entropy", "invalid_rho",
          "valid_rho", "from_metrics", "nonrandom_bernoulli", "nonrandom_correlated", "random_correlated", "score_class_neg", "p_edge"]


# --------------------------------------------------------------------------
# generation


def gen_prob(rnd):
    r = rnd.random()
    if r < 0.12:
        return rnd.choice([0.0, 1.0])
    if r < 0.16:
        return rnd.choice([1e-9, 1e-4, 1 - 1e-9, 1 - 1e-4, 0.999, 0.001])
    if r < 0.3:
        return rnd.choice([0.5, 0.25, 0.1, 0.9, 1 / 3, 0.2, 0.7])
    return round(rnd.uniform(0, 1), rnd.choice([2, 3, 6]))


def gen_rng(rnd, fns):
    r = rnd.random()
    if r < 0.06:
        # a generator that fails on its k-th call: the call may fail, the model must survive intact
        return {"kind": "adversarial", "seed": rnd.randrange(2**31), "plan": [{"kind": "rng_raise", "call": rnd.randint(0, 2)}]}
    if r < 0.3:
        return {"kind": "faithful", "seed": rnd.randrange(2**31)}
    if r < 0.42:
        return {"kind": "none"}
    plan = []
    for fn in fns:
        if rnd.random() < 0.75:
            if fn == "binomial":
                plan.append({"fn": fn, "kind": rnd.choice(["binom_zero", "binom_all", "binom_one", "binom_allbutone"])})
            elif fn == "normal":
                plan.append({"fn": fn, "kind": rnd.choice(["normal_zeros", "normal_alternating"])})
            elif fn == "choice":
                plan.append({"fn": fn, "kind": "category_constant", "which": rnd.randrange(4)})
            else:
                plan.append({"fn": fn, "kind": rnd.choice(["shuffle_identity", "shuffle_reverse", "shuffle_rotate"]), "k": rnd.randint(1, 50)})
    if rnd.random() < 0.5:
        # (the unchanged code never asks for plain uniforms; an implementation that builds its draws from them gets the ends)
        plan.append({"fn": "random", "kind": rnd.choice(["uniform_max", "uniform_max", "uniform_zero"])})
    return {"kind": "adversarial", "seed": rnd.randrange(2**31), "plan": plan}


def generate(rnd, tier):
    if rnd.random() < 0.3:
        normal = {"from_metrics": {"fnr": rnd.choice([1e-6, 1e-3, 0.01, 0.1, 0.5, 1 - 1e-6, round(rnd.uniform(1e-4, 0.9999), 4)]),
                                   "fpr": rnd.choice([1e-6, 1e-3, 0.01, 0.1, 0.5, 1 - 1e-6, round(rnd.uniform(1e-4, 0.9999), 4)]),
                                   "fnr_support": rnd.randint(1, 50), "fpr_support": rnd.randint(1, 50),
                                   "sigma_pos": rnd.choice([1.0, round(rnd.uniform(0.05, 20), 2)]),
                                   "sigma_neg": rnd.choice([1.0, round(rnd.uniform(0.05, 20), 2)])}}
        if rnd.random() < 0.3:
            # supports read off an integer array (cells of a confusion matrix): NumPy integer scalars of any width
            normal["from_metrics"]["support_type"] = rnd.choice(["int8", "uint8", "uint16", "int16", "int32", "int64", "uint64"])
    else:
        normal = {"mu_pos": round(rnd.uniform(-10, 10), 3), "mu_neg": None if rnd.random() < 0.3 else round(rnd.uniform(-10, 10), 3),
                  "sigma_pos": rnd.choice([3.75, round(rnd.uniform(0.05, 20), 3)]), "sigma_neg": rnd.choice([3.0, round(rnd.uniform(0.05, 20), 3)]),
                  "p_pos": gen_prob(rnd), "n": rnd.choice([None, rnd.randint(1, 500)]), "score_class": rnd.choice(["pos", "neg"])}
        if rnd.random() < 0.12:
            # scores sitting on a large offset (timestamps, raw counts): |mu| / sigma far beyond 1/eps**0.5
            off = rnd.choice([-1, 1]) * 10.0 ** rnd.randint(7, 14)
            normal["mu_pos"] = off + normal["mu_pos"]
            if normal["mu_neg"] is not None:
                normal["mu_neg"] = off + normal["mu_neg"]
        if rnd.random() < 0.15:
            normal["param_type"] = rnd.choice(["float32", "float16", "int"])
    bern = {"p": gen_prob(rnd), "n": rnd.choice([None, rnd.randint(1, 500)])}
    if rnd.random() < 0.08:
        # a probability a hair below a simple fraction, n a multiple of its denominator: n*p is just below an integer,
        # by far more than rounding (so floor(n*p) is that integer minus one)
        b_ = rnd.randint(2, 9)
        bern = {"p": rnd.randint(1, b_) / b_ - rnd.choice([1e-10, 3e-10, 1e-9]), "n": b_ * rnd.randint(20, 55)}
    p1, p2 = gen_prob(rnd), gen_prob(rnd)
    # rho: inside the admissible interval, outside, or anywhere
    corr = {"p1": p1, "p2": p2, "rho": round(rnd.uniform(-1, 1), 3) if rnd.random() < 0.7 else rnd.choice([0.0, 0.3, -0.3, 1.0, -1.0]),
            "n": rnd.choice([None, rnd.randint(1, 500)])}
    ops = []
    for _ in range(rnd.randint(3, 8)):
        which = rnd.choice(["normal", "normal", "bernoulli", "bernoulli", "correlated", "correlated"])
        n = rnd.choice([None, rnd.randint(1, 500), rnd.randint(1, 12)])
        if which == "normal":
            ops.append({"ds": "normal", "n": n, "p_pos": rnd.choice([None, None, gen_prob(rnd)]), "rng": gen_rng(rnd, ["binomial", "normal"])})
        elif which == "bernoulli":
            random_ = rnd.random() < 0.5
            ops.append({"ds": "bernoulli", "n": n, "random": random_, "rng": gen_rng(rnd, ["binomial"] if random_ else ["shuffle"])})
        else:
            random_ = rnd.random() < 0.5
            ops.append({"ds": "correlated", "n": n, "random": random_, "rng": gen_rng(rnd, ["choice"] if random_ else ["shuffle"])})
    return {"np_seed": rnd.randrange(2**31), "normal": normal, "bernoulli": bern, "correlated": corr, "ops": ops,
            "analytic_q": [rnd.choice([1e-12, 1e-9, 1e-6, 1e-3, 0.5, 1 - 1e-6, 1 - 1e-9, 1 - 1e-12, round(rnd.uniform(0.001, 0.999), 4)]) for _ in range(3)],
            "analytic_z": [round(rnd.uniform(-5, 5), 3) if rnd.random() < 0.7 else round(rnd.uniform(-8, 8), 3) for _ in range(3)],
            "analytic_dtype": rnd.choice(["float32", "float16", "float32", "int32", "int8", "uint8"])}


# --------------------------------------------------------------------------
# helpers


def make_rng(spec):
    if spec["kind"] == "none":
        return None
    if spec["kind"] == "faithful":
        return SimGenerator(spec["seed"])
    return SimGenerator(spec["seed"], spec.get("plan"))


def floor_ok(value, product):
    f = math.floor(product)
    if value == f:
        return True
    r = round(product)
    return abs(product - r) < 1e-9 and value in (r, r - 1)


def joint_probs(p1, p2, rho):
    c = (1 - p1) * (1 - p2)
    a = c + rho * math.sqrt(max(p1 * p2 * c, 0.0))
    return [a, 1 - p2 - a, 1 - p1 - a, p1 + p2 + a - 1]


# --------------------------------------------------------------------------
# execution


def execute(scn, ctx):
    if scn.get("stat"):
        return execute_stat(scn, ctx)
    L = lib()
    E = L.experimental
    seam = ctx.seam
    seam.seed(scn["np_seed"])
    seam.begin_op([])
    viol, trace, sig = [], [], []
    probes, faults = {}, {}
    states = set()
    n_adv = 0
    nd_float = None

    def probe(name, k=1):
        probes[name] = probes.get(name, 0) + k

    def bad(name, detail, tags=None):
        viol.append({"invariant": f"C20.{name}", "detail": detail, "tags": tags or {}})

    # ---- models
    ns = scn["normal"]
    fm = ns.get("from_metrics")
    try:
        if fm:
            probe("from_metrics")
            st_ = getattr(np, fm["support_type"]) if fm.get("support_type") else int
            nd = E.NormalDataset.from_metrics(fm["fnr"], fm["fpr"], st_(fm["fnr_support"]), st_(fm["fpr_support"]),
                                              sigma_pos=fm["sigma_pos"], sigma_neg=fm["sigma_neg"])
        else:
            pt = ns.get("param_type")
            if pt:
                # model parameters handed over as low-precision NumPy scalars (or ints): the model is the one
                # with the parameters' exact values, so the analytic answers must be those of the float model
                probe("param_" + pt)
                conv = (lambda v: None if v is None else int(round(v))) if pt == "int" else (lambda v: None if v is None else getattr(np, pt)(v))
                mp_, mn_ = conv(ns["mu_pos"]), conv(ns["mu_neg"])
                sp_, sn_ = (max(1, int(round(ns["sigma_pos"]))), max(1, int(round(ns["sigma_neg"])))) if pt == "int" else (conv(ns["sigma_pos"]), conv(ns["sigma_neg"]))
                if not all(np.isfinite(float(v)) and float(v) != 0 for v in (sp_, sn_)) or not all(v is None or np.isfinite(float(v)) for v in (mp_, mn_)):
                    mp_, mn_, sp_, sn_ = ns["mu_pos"], ns["mu_neg"], ns["sigma_pos"], ns["sigma_neg"]
                    pt = None
                nd = E.NormalDataset(mu_pos=mp_, mu_neg=mn_, sigma_pos=sp_, sigma_neg=sn_, p_pos=ns["p_pos"], n=ns["n"], score_class=ns["score_class"])
                if pt:
                    fl = lambda v: None if v is None else float(v)  # noqa: E731
                    nd_float = E.NormalDataset(mu_pos=fl(mp_), mu_neg=fl(mn_), sigma_pos=fl(sp_), sigma_neg=fl(sn_), p_pos=ns["p_pos"], n=ns["n"], score_class=ns["score_class"])
            else:
                nd = E.NormalDataset(mu_pos=ns["mu_pos"], mu_neg=ns["mu_neg"], sigma_pos=ns["sigma_pos"], sigma_neg=ns["sigma_neg"],
                                     p_pos=ns["p_pos"], n=ns["n"], score_class=ns["score_class"])
    except Exception as e:  # noqa: BLE001
        bad("construct", f"NormalDataset construction raised {type(e).__name__}: {e}")
        nd = None
    bd = E.BernoulliDataset(p=scn["bernoulli"]["p"], n=scn["bernoulli"]["n"])
    cs = scn["correlated"]
    cd = E.CorrelatedBernoullilDataset(p1=cs["p1"], p2=cs["p2"], rho=cs["rho"], n=cs["n"])
    probs = joint_probs(cs["p1"], cs["p2"], cs["rho"])
    rho_valid = min(probs) > 1e-9
    rho_invalid = min(probs) < -1e-9
    probe("valid_rho" if rho_valid else "invalid_rho" if rho_invalid else "rho_boundary")
    if any(x in (0.0, 1.0) for x in (scn["bernoulli"]["p"], cs["p1"], cs["p2"])):
        probe("p_edge")

    # ---- analytic by-products (pure; no simulation content)
    if nd is not None:
        if str(getattr(nd.score_class, "value", nd.score_class)) == "neg":
            probe("score_class_neg")
        try:
            mus = [abs(float(nd.mu_pos)), abs(float(nd.mu_neg))]
            illc = max(mus) / min(float(nd.sigma_pos), float(nd.sigma_neg)) > 1e6
            if illc:
                probe("ill_conditioned_offset")
            for q in scn["analytic_q"]:
                t = nd.threshold_at_fnr(q)
                if not isinstance(t, float):
                    bad("analytic_scalar", f"threshold_at_fnr({q}) returned {type(t).__name__}, expected a plain scalar")
                tol = 1e-9 * min(q, 1 - q) + 4e-16  # relative in both tails (measured on the unchanged tree: 9e-14)
                if not illc and abs(nd.fnr(t) - q) > tol:
                    bad("analytic_inverse", f"fnr(threshold_at_fnr({q})) = {nd.fnr(t)!r}")
                t = nd.threshold_at_fpr(q)
                if not illc and abs(nd.fpr(t) - q) > tol:
                    bad("analytic_inverse", f"fpr(threshold_at_fpr({q})) = {nd.fpr(t)!r}")
                if not isinstance(nd.fpr(t), float):
                    bad("analytic_scalar", f"fpr(scalar) returned {type(nd.fpr(t)).__name__}")
            for z in scn["analytic_z"]:
                if illc:
                    break
                # cdf/ppf are accurate in the lower tail, sf/isf in the upper tail; near 1 a rate cannot carry
                # the threshold in double precision, so each round trip is asked only where it is well-posed
                zf = min(z, 5.0)
                t = float(nd.mu_pos) + zf * float(nd.sigma_pos)
                back = nd.threshold_at_fnr(nd.fnr(t))
                if abs(back - t) > 1e-6 * max(1.0, nd.sigma_pos):
                    bad("analytic_inverse", f"threshold_at_fnr(fnr({t})) = {back!r}")
                zp = max(z, -5.0)
                t = float(nd.mu_neg) + zp * float(nd.sigma_neg)
                back = nd.threshold_at_fpr(nd.fpr(t))
                if abs(back - t) > 1e-6 * max(1.0, nd.sigma_neg):
                    bad("analytic_inverse", f"threshold_at_fpr(fpr({t})) = {back!r}")
            qa = np.asarray(scn["analytic_q"], dtype=float)
            for kw in ({"fnr": qa}, {"fpr": qa}):
                c = nd.roc(**kw)
                rt = 1e-9 * np.minimum(qa, 1 - qa) + 4e-16
                f_at, p_at = np.asarray(nd.fnr(np.asarray(c.thresholds))), np.asarray(nd.fpr(np.asarray(c.thresholds)))
                if not (np.all(np.abs(np.asarray(c.fnr) - f_at) <= 1e-9 * np.minimum(f_at, 1 - f_at) + 4e-16)
                        and np.all(np.abs(np.asarray(c.fpr) - p_at) <= 1e-9 * np.minimum(p_at, 1 - p_at) + 4e-16)):
                    bad("analytic_roc", f"roc({list(kw)[0]}=...) rates are not the rates at its thresholds: fnr {np.asarray(c.fnr).tolist()} vs {f_at.tolist()}, "
                                        f"fpr {np.asarray(c.fpr).tolist()} vs {p_at.tolist()}", {"illc": bool(illc)})
                given = np.asarray(c.fnr if "fnr" in kw else c.fpr)
                if not illc and not np.all(np.abs(given - qa) <= rt):
                    bad("analytic_roc", f"roc({list(kw)[0]}=q) does not pass through q: {given.tolist()} vs {qa.tolist()}")
            # the analytic rates are functions of the threshold's value: a threshold array (or NumPy scalar) of
            # another dtype gives, element by element, what the Python-float call gives
            adt = scn.get("analytic_dtype")
            if adt and not ns.get("param_type"):  # (all-float32 inputs make scipy itself work in single precision)
                zs = np.asarray(scn["analytic_z"], dtype=float)
                for mu_, sg_, fn_ in ((float(nd.mu_pos), float(nd.sigma_pos), nd.fnr), (float(nd.mu_neg), float(nd.sigma_neg), nd.fpr)):
                    with np.errstate(all="ignore"):
                        ta = (mu_ + zs * sg_).astype(getattr(np, adt))
                    if not np.all(np.isfinite(ta.astype(float))):
                        continue
                    probe("analytic_dtype_" + adt)
                    want = np.array([fn_(float(x)) for x in ta], dtype=float)
                    for label, got in (("array", np.asarray(fn_(ta), dtype=float)), ("scalar", np.array([fn_(x) for x in ta], dtype=float))):
                        if not np.all(np.abs(got - want) <= 1e-12 * want + 4e-16):
                            bad("analytic_dtype", f"{fn_.__name__}({label} of {adt} {ta.tolist()}) = {got.tolist()}, but the same values as Python floats give {want.tolist()}",
                                {"dtype": adt, "form": label})
            if nd_float is not None:
                zs = np.asarray(scn["analytic_z"], dtype=float)
                ta = float(nd.mu_pos) + np.clip(zs, -5, 5) * float(nd.sigma_pos)
                for name_, arg in (("fnr", ta), ("fpr", ta), ("threshold_at_fnr", qa), ("threshold_at_fpr", qa)):
                    got, want = np.asarray(getattr(nd, name_)(arg), dtype=float), np.asarray(getattr(nd_float, name_)(arg), dtype=float)
                    scale = want if name_ in ("fnr", "fpr") else np.abs(want) + float(nd.sigma_pos) + float(nd.sigma_neg)
                    if not np.all(np.abs(got - want) <= 1e-12 * scale + 4e-16):
                        bad("analytic_dtype", f"{name_}({arg.tolist()}) of a model with {ns.get('param_type')} parameters = {got.tolist()}, the float model with the same values gives {want.tolist()}",
                            {"param_type": ns.get("param_type"), "fn": name_})
            for kw in ({}, {"fnr": qa, "fpr": qa}):
                try:
                    nd.roc(**kw)
                    bad("analytic_roc", f"roc({sorted(kw)}) did not raise ValueError")
                except ValueError:
                    pass
            if fm:
                if abs(nd.fnr(0.0) - fm["fnr"]) > 1e-9 or abs(nd.fpr(0.0) - fm["fpr"]) > 1e-9:
                    bad("from_metrics", f"from_metrics({fm['fnr']}, {fm['fpr']}): fnr(0)={nd.fnr(0.0)!r} fpr(0)={nd.fpr(0.0)!r}")
                a, b = fm["fnr_support"] / fm["fnr"], fm["fpr_support"] / fm["fpr"]
                ok_n = any(nd.n == x + y for x in {math.floor(a), round(a)} if floor_ok(x, a) for y in {math.floor(b), round(b)} if floor_ok(y, b))
                if not ok_n:
                    bad("from_metrics", f"n = {nd.n}, implied sizes floor({a}) + floor({b})")
                else:
                    npos_ok = [x for x in {math.floor(a), round(a)} if floor_ok(x, a)]
                    if not any(abs(nd.p_pos - x / nd.n) < 1e-12 for x in npos_ok):
                        bad("from_metrics", f"p_pos = {nd.p_pos}, implied {npos_ok[0]}/{nd.n}")
        except Exception as e:  # noqa: BLE001
            bad("analytic_raises", f"analytic method raised {type(e).__name__}: {e}")

    def snap(obj):
        return None if obj is None else tuple((k_, repr(v_)) for k_, v_ in sorted(vars(obj).items()))

    model0 = {"normal": snap(nd), "bernoulli": snap(bd), "correlated": snap(cd)}
    nd_n0 = nd.n if nd is not None else None  # expectations come from the model as constructed, not as found later
    nd_p0 = nd.p_pos if nd is not None else None
    bd_n0, cd_n0 = bd.n, cd.n

    # ---- sampling operations under controlled generators
    for step, op in enumerate(scn["ops"]):
        rng = make_rng(op["rng"])
        ent0 = seam.entropy_requests
        ds = op["ds"]
        tags = {"ds": ds, "rng": op["rng"]["kind"]}
        outcome = "ok"
        fired = []
        try:
            if ds == "normal":
                if nd is None:
                    continue
                n_arg = op["n"]
                if n_arg is None and nd_n0 is not None and nd_n0 > 2000:
                    n_arg = 300  # from_metrics models imply up to 1e8 samples: keep the simulated draw small
                n_eff = n_arg if n_arg is not None else nd_n0
                if n_eff is None:
                    continue  # no size anywhere: not in the quantifier (n >= 1)
                kw = {}
                if op.get("p_pos") is not None:
                    kw["p_pos"] = op["p_pos"]
                s = nd.sample(n_arg, rng=rng, **kw)
                p_eff = op["p_pos"] if op.get("p_pos") is not None else nd_p0
                if not isinstance(s, L.Scores):
                    bad("normal_sample", f"sample() returned {type(s).__name__}", tags)
                else:
                    if len(s.pos) + len(s.neg) != n_eff:
                        bad("normal_sample", f"sample(n={n_eff}) returned {len(s.pos)} + {len(s.neg)} scores", tags)
                    if s.score_class != L.BinaryLabel(nd.score_class):
                        bad("normal_sample", f"sample has score_class {s.score_class}, model {nd.score_class}", tags)
                    if s.nb_easy_pos or s.nb_easy_neg:
                        bad("normal_sample", "sample has easy samples", tags)
                    if rng is not None:
                        fired = list(rng.fired)
                        bc = [c for c in rng.calls if c[0] == "binomial"]
                        if len(bc) == 1 and bc[0][1] == n_eff and isinstance(bc[0][3], int):
                            if isinstance(bc[0][2], float) and abs(bc[0][2] - p_eff) > 1e-15:
                                bad("normal_sample", f"class split drawn with p={bc[0][2]} but p_pos={p_eff} was requested", tags)
                            if len(s.pos) != bc[0][3]:
                                bad("normal_sample", f"class split {len(s.pos)}:{len(s.neg)} but the generator's binomial({n_eff}, {p_eff}) draw was {bc[0][3]}", tags)
                        if "normal_zeros" in fired and len(getattr(rng, "last_normals", [])) == 2:
                            if not (np.all(np.asarray(s.pos) == nd.mu_pos) and np.all(np.asarray(s.neg) == nd.mu_neg)):
                                bad("normal_sample", f"with zero noise the scores must equal the class means ({nd.mu_pos}, {nd.mu_neg})", tags)
                        if "normal_alternating" in fired and len(getattr(rng, "last_normals", [])) == 2:
                            at_ = 1e-12 + 4 * float(np.spacing(abs(float(nd.mu_pos)) + abs(float(nd.mu_neg)) + float(nd.sigma_pos) + float(nd.sigma_neg)))
                            okp = np.all(np.isclose(np.abs(np.asarray(s.pos) - float(nd.mu_pos)), float(nd.sigma_pos), rtol=1e-12, atol=at_))
                            okn = np.all(np.isclose(np.abs(np.asarray(s.neg) - float(nd.mu_neg)), float(nd.sigma_neg), rtol=1e-12, atol=at_))
                            if not (okp and okn):
                                bad("normal_sample", "with +-1 sigma noise the scores must be mu +- sigma of their own class", tags)
                    if not (M.is_sorted(s.pos) and M.is_sorted(s.neg)):
                        bad("normal_sample", "sample scores are not sorted", tags)
                states.add(f"normal|{tags['rng']}|{'neg' if str(getattr(nd.score_class, 'value', nd.score_class)) == 'neg' else 'pos'}|p{p_eff in (0.0, 1.0)}")
            elif ds == "bernoulli":
                n_eff = op["n"] or bd_n0
                if n_eff is None:
                    try:
                        bd.sample(op["n"], random=op["random"], rng=rng)
                        bad("bernoulli_sample", "sample() without any n did not raise ValueError", tags)
                    except ValueError:
                        outcome = "ValueError(n)"
                else:
                    data = np.asarray(bd.sample(op["n"], random=op["random"], rng=rng))
                    if rng is not None:
                        fired = list(rng.fired)
                    if data.shape != (n_eff,) or not np.all((data == 0) | (data == 1)):
                        bad("bernoulli_sample", f"sample(n={n_eff}) has shape {data.shape} / values outside {{0,1}}", tags)
                    elif not op["random"]:
                        probe("nonrandom_bernoulli")
                        ones = int(data.sum())
                        if not floor_ok(ones, n_eff * bd.p):
                            bad("bernoulli_count", f"non-random sample(n={n_eff}, p={bd.p}) has {ones} successes, floor(n*p) = {math.floor(n_eff * bd.p)}", tags)
                    else:
                        if bd.p == 0.0 and data.sum() != 0 or bd.p == 1.0 and data.sum() != n_eff:
                            bad("bernoulli_sample", f"random sample with p={bd.p} has {int(data.sum())} successes of {n_eff}", tags)
                states.add(f"bernoulli|{tags['rng']}|{op['random']}|p{bd.p in (0.0, 1.0)}")
            else:
                n_eff = op["n"] or cd_n0
                if n_eff is None:
                    try:
                        cd.sample(op["n"], random=op["random"], rng=rng)
                        bad("correlated_sample", "sample() without any n did not raise ValueError", tags)
                    except ValueError:
                        outcome = "ValueError(n)"
                else:
                    try:
                        data = cd.sample(op["n"], random=op["random"], rng=rng)
                        raised = None
                    except ValueError as e:
                        data, raised = None, e
                    if rng is not None:
                        fired = list(rng.fired)
                    if rho_invalid:
                        if raised is None:
                            bad("correlated_validity", f"p1={cd.p1} p2={cd.p2} rho={cd.rho} gives joint probabilities {probs} but no ValueError was raised", tags)
                        outcome = "ValueError(rho)"
                    elif rho_valid:
                        if raised is not None:
                            bad("correlated_validity", f"valid parameters p1={cd.p1} p2={cd.p2} rho={cd.rho} (joint {probs}) raised ValueError: {raised}", tags)
                        else:
                            data = np.asarray(data)
                            if data.shape != (2, n_eff) or not np.all((data == 0) | (data == 1)):
                                bad("correlated_sample", f"sample(n={n_eff}) has shape {data.shape} / values outside {{0,1}}", tags)
                            elif not op["random"]:
                                probe("nonrandom_correlated")
                                m1, m2 = int(data[0].sum()), int(data[1].sum())
                                if abs(m1 - n_eff * cd.p1) > 3 + 1e-9 or abs(m2 - n_eff * cd.p2) > 3 + 1e-9:
                                    bad("correlated_marginals", f"non-random sample(n={n_eff}): marginal counts ({m1}, {m2}) vs n*p = ({n_eff * cd.p1}, {n_eff * cd.p2})", tags)
                            else:
                                probe("random_correlated")
                                if "category_constant" in fired:
                                    c0 = (int(data[0][0]), int(data[1][0]))
                                    cat = c0[0] + 2 * c0[1]
                                    if not (np.all(data[0] == c0[0]) and np.all(data[1] == c0[1])) or not probs[cat] > 0:
                                        bad("correlated_sample", f"generator answered one admissible category for every draw but the sample is not constant/admissible: first column {c0}", tags)
                    else:
                        outcome = "boundary"
                states.add(f"correlated|{tags['rng']}|{op['random']}|{'valid' if rho_valid else 'invalid' if rho_invalid else 'boundary'}")
        except Exception as e:  # noqa: BLE001
            if rng is not None and "rng_raise" in rng.fired:
                outcome = "failed-after-fault"  # fail-or-correct: the model is checked below
                fired = list(rng.fired)
            else:
                outcome = "raise:" + type(e).__name__
                bad("sample_raises", f"{ds}.sample raised {type(e).__name__}: {e}", dict(tags, error=type(e).__name__))
        now = {"normal": snap(nd), "bernoulli": snap(bd), "correlated": snap(cd)}
        if now != model0:
            which = [k_ for k_ in now if now[k_] != model0[k_]]
            bad("model_unchanged", f"{ds}.sample() left the dataset object(s) {which} modified: {dict(now[which[0]])} (was {dict(model0[which[0]])})", tags)
            model0 = now
        if seam.entropy_requests != ent0:
            probe("default_rng_entropy")
            if rng is not None:
                bad("rng_ignored", f"{ds}.sample(rng=...) requested OS entropy although a generator was passed", tags)
        for kd in fired:
            faults[kd] = faults.get(kd, 0) + 1
            n_adv += 1
            probe({"binom": "adversarial_binomial", "norma": "adversarial_normal", "categ": "adversarial_choice", "shuff": "adversarial_shuffle",
                   "rng_r": "generator_failure", "unifo": "adversarial_uniform"}.get(kd[:5], "adversarial_other"))
        trace.append([step, ds, tags, sorted(set(fired)), outcome])
        sig.append(f"{ds}|{tags['rng']}|{op.get('random')}|{','.join(sorted(set(fired)))}|{outcome}")
    seen, out = set(), []
    for x in viol:
        key = (x["invariant"], json.dumps(x.get("tags", {}), sort_keys=True))
        if key not in seen:
            seen.add(key)
            out.append(x)
    sig.append(f"fm{bool(fm)}|{'valid' if rho_valid else 'invalid' if rho_invalid else 'boundary'}")
    return {
        "violations": out, "trace": trace,
        "stats": {"ops": len(scn["ops"]), "draws": 0, "forced": n_adv, "faults": faults, "probes": probes},
        "signature": hashlib.sha1("\n".join(sig).encode()).hexdigest(), "nontrivial": n_adv > 0 or len(scn["ops"]) >= 2,
        "states": sorted(states),
    }


# --------------------------------------------------------------------------
# distributional oracle (faithful streams)


def stat_scenario(verif_seed, j, tier):
    import random

    from ..runner import run_seed

    rnd = random.Random(run_seed(verif_seed, "C20-stat", j))
    which = ["normal", "bernoulli", "correlated", "normal_default"][j % 4]
    n = rnd.randint(5, 80)
    scn = {"stat": True, "which": which, "n": n, "seed": rnd.randrange(2**31), "np_seed": rnd.randrange(2**31), "M": TIERS[tier]["stat_M"]}
    if which.startswith("normal"):
        scn.update({"p_pos": round(rnd.uniform(0.05, 0.95), 3), "mu_pos": round(rnd.uniform(-3, 3), 2), "score_class": rnd.choice(["pos", "neg"])})
    elif which == "bernoulli":
        scn.update({"p": round(rnd.uniform(0.02, 0.98), 3)})
    else:
        p1, p2 = round(rnd.uniform(0.2, 0.8), 2), round(rnd.uniform(0.2, 0.8), 2)
        lo = -min(math.sqrt(p1 * p2 / ((1 - p1) * (1 - p2))), math.sqrt((1 - p1) * (1 - p2) / (p1 * p2)))
        hi = min(math.sqrt(p1 * (1 - p2) / (p2 * (1 - p1))), math.sqrt(p2 * (1 - p1) / (p1 * (1 - p2))))
        scn.update({"p1": p1, "p2": p2, "rho": round(rnd.uniform(0.8 * lo, 0.8 * hi), 3)})
    return scn


def execute_stat(scn, ctx):
    L = lib()
    E = L.experimental
    seam = ctx.seam
    seam.seed(scn["np_seed"])
    seam.begin_op([])
    Mn, n = int(scn["M"]), int(scn["n"])
    g = np.random.Generator(np.random.PCG64(scn["seed"]))
    viol = []
    tags = {"stat": True, "which": scn["which"]}
    n_tests = 0
    if scn["which"].startswith("normal"):
        nd = E.NormalDataset(mu_pos=scn["mu_pos"], p_pos=scn["p_pos"], n=n, score_class=scn["score_class"])
        use_default = scn["which"] == "normal_default"
        x = np.empty((Mn, 1))
        for i in range(Mn):
            s = nd.sample(rng=None if use_default else g)
            x[i, 0] = len(s.pos) / n
        ok, m, tol = ST.mean_test(x, [scn["p_pos"]], 1.0)
        n_tests += 1
        if not ok.all():
            viol.append({"invariant": "C20.normal_split_mean", "tags": tags,
                         "detail": f"mean positive fraction {m[0]:.4f}, expected p_pos={scn['p_pos']} +- {tol[0]:.4f} (M={Mn}, n={n})"})
        h = x.tobytes()
    elif scn["which"] == "bernoulli":
        bd = E.BernoulliDataset(p=scn["p"], n=n)
        x = np.empty((Mn, 1))
        for i in range(Mn):
            x[i, 0] = bd.sample(rng=g).mean()
        ok, m, tol = ST.mean_test(x, [scn["p"]], 1.0)
        n_tests += 1
        if not ok.all():
            viol.append({"invariant": "C20.bernoulli_mean", "tags": tags,
                         "detail": f"mean success fraction {m[0]:.4f}, expected p={scn['p']} +- {tol[0]:.4f} (M={Mn}, n={n})"})
        h = x.tobytes()
    else:
        cd = E.CorrelatedBernoullilDataset(p1=scn["p1"], p2=scn["p2"], rho=scn["rho"], n=n)
        x = np.empty((Mn, 3))
        for i in range(Mn):
            d = cd.sample(rng=g)
            x[i] = (d[0].mean(), d[1].mean(), (d[0] * d[1]).mean())
        p11 = scn["p1"] * scn["p2"] + scn["rho"] * math.sqrt(scn["p1"] * scn["p2"] * (1 - scn["p1"]) * (1 - scn["p2"]))
        ok, m, tol = ST.mean_test(x, [scn["p1"], scn["p2"], p11], 1.0)
        n_tests += 3
        if not ok.all():
            viol.append({"invariant": "C20.correlated_moments", "tags": tags,
                         "detail": f"mean (x, y, xy) = {np.round(m, 4).tolist()}, expected {[scn['p1'], scn['p2'], round(p11, 4)]} +- {np.round(tol, 4).tolist()} (M={Mn}, n={n})"})
        h = x.tobytes()
    return {"violations": viol, "trace": [["stat", tags, Mn, hashlib.sha1(h).hexdigest()[:16]]],
            "stats": {"ops": Mn, "draws": 0, "forced": 0, "faults": {}, "probes": {}, "stat_tests": n_tests},
            "signature": hashlib.sha1(json.dumps([tags, n]).encode()).hexdigest(), "nontrivial": True, "states": [f"stat|{scn['which']}"]}


# --------------------------------------------------------------------------
# minimisation


def shrink(scn):
    if scn.get("stat"):
        if scn["M"] > 2000:
            yield SH.with_path(scn, ["M"], max(2000, scn["M"] // 2))
        return
    for cand in SH.drop_chunks(scn["ops"], min_len=0):
        yield SH.with_path(scn, ["ops"], cand)
    for i, op in enumerate(scn["ops"]):
        if op.get("n"):
            for v in SH.shrink_int(op["n"], lo=1):
                yield SH.with_path(scn, ["ops", i, "n"], v)
        if op["rng"].get("plan"):
            for cand in SH.drop_chunks(op["rng"]["plan"]):
                yield SH.with_path(scn, ["ops", i, "rng", "plan"], cand)
    for ds in ("bernoulli", "correlated"):
        if scn[ds].get("n"):
            for v in SH.shrink_int(scn[ds]["n"], lo=1):
                yield SH.with_path(scn, [ds, "n"], v)
    if scn["normal"].get("n"):
        for v in SH.shrink_int(scn["normal"]["n"], lo=1):
            yield SH.with_path(scn, ["normal", "n"], v)
    for key in ("analytic_q", "analytic_z"):
        for cand in SH.drop_chunks(scn[key], min_len=0):
            yield SH.with_path(scn, [key], cand)


def sample_view(scn, res):
    return {"scenario": scn, "signature": res.get("signature"), "violations": [v["invariant"] for v in res["violations"]]}
