"""simkit - a small deterministic simulator for the score-analysis library.

Nothing in here draws scheduler randomness at execution time: a scenario (plain
JSON data) plus the code in the repository's working tree fully determine a run.
"""
