"""Sensitivity self-test: apply small mutants to a scratch copy of the repository and
require the quick check of the affected property to report a violation whose replay
reproduces on the mutant and passes on the unchanged tree.

Not part of any registered check.  Scratch copies live under /tmp and are removed.
"""

import json
import os
import shutil
import subprocess
import sys
import tempfile
import time
from concurrent.futures import ThreadPoolExecutor

from . import boot

MUTANTS = os.path.join(boot.VERIF_DIR, "mutants", "mutants.json")


def _apply(root, m):
    for e in m["edits"]:
        p = os.path.join(root, e["file"])
        s = open(p).read()
        if s.count(e["old"]) != 1:
            raise RuntimeError(f"mutant {m['name']}: pattern occurs {s.count(e['old'])} times in {e['file']}")
        open(p, "w").write(s.replace(e["old"], e["new"]))


def run_one(m, with_tests, runs):
    t0 = time.time()
    tmp = tempfile.mkdtemp(prefix="simkit-mut-")
    root = os.path.join(tmp, "repo")
    out = {"name": m["name"], "property": m["property"]}
    try:
        shutil.copytree(boot.REPO, root, ignore=shutil.ignore_patterns(".git", "__pycache__", "notebooks", "images", "docs"))
        _apply(root, m)
        if with_tests:
            p = subprocess.run([sys.executable, "-m", "pytest", "-q", "-x", "-p", "no:cacheprovider", "tests"], cwd=root,
                               capture_output=True, text=True, timeout=900,
                               env={**os.environ, "PYTHONPATH": root, "PYTHONDONTWRITEBYTECODE": "1"})
            out["tests_pass"] = p.returncode == 0
            out["tests_tail"] = p.stdout.strip().splitlines()[-1:] if p.stdout else []
        env = {**os.environ, "VERIF_REPO": root, "VERIF_WORKERS": os.environ.get("SELFTEST_WORKERS", "4")}
        env.pop("SIMKIT_REEXEC", None)
        replay_dir = os.path.join(tmp, "replays")
        env["VERIF_REPLAY_DIR"] = replay_dir
        env["VERIF_EVIDENCE_DIR"] = os.path.join(tmp, "evidence")
        cmd = [sys.executable, os.path.join(boot.VERIF_DIR, "check.py"), m["property"], "--tier", "quick"]
        if runs:
            cmd += ["--runs", str(runs)]
        p = subprocess.run(cmd, capture_output=True, text=True, timeout=3600, env=env, cwd=boot.VERIF_DIR)
        out["exit"] = p.returncode
        vl = [ln for ln in p.stdout.splitlines() if ln.startswith("VIOLATION ")]
        inv = [ln.strip() for ln in p.stdout.splitlines() if ln.strip().startswith("invariant=")]
        out["violations"] = inv[:4]
        out["detected"] = p.returncode == 1 and bool(vl)
        if p.returncode not in (0, 1):
            out["output_tail"] = p.stdout.strip().splitlines()[-5:] + p.stderr.strip().splitlines()[-5:]
        # the replay must pass on the unchanged tree (otherwise the check, not the mutant, is at fault)
        out["replay_clean_on_base"] = None
        if vl:
            path = vl[0].split("replay=")[1].strip()
            env2 = {**os.environ}
            env2.pop("VERIF_REPO", None)
            env2.pop("SIMKIT_REEXEC", None)
            q = subprocess.run([sys.executable, os.path.join(boot.VERIF_DIR, "check.py"), "replay", path, "--quiet"],
                               capture_output=True, text=True, timeout=600, env=env2, cwd=boot.VERIF_DIR)
            out["replay_clean_on_base"] = q.returncode == 0
    except Exception as e:  # noqa: BLE001
        out["error"] = repr(e)
        out["detected"] = False
    finally:
        shutil.rmtree(tmp, ignore_errors=True)
    out["wall_s"] = round(time.time() - t0, 1)
    return out


def main(only=None, props=None, with_tests=None, runs=None, jobs=None):
    with open(MUTANTS) as f:
        muts = json.load(f)["mutants"]
    if only:
        muts = [m for m in muts if only in m["name"]]
    if props:
        want = set(props.split(","))
        muts = [m for m in muts if m["property"] in want]
    with_tests = with_tests if with_tests is not None else os.environ.get("SELFTEST_WITH_TESTS", "1") == "1"
    jobs = int(jobs or os.environ.get("SELFTEST_JOBS", "4"))
    results = []
    with ThreadPoolExecutor(max_workers=jobs) as ex:
        for r in ex.map(lambda m: run_one(m, with_tests, runs), muts):
            ok = r.get("detected") and r.get("replay_clean_on_base") is not False
            print(f"{'CAUGHT ' if ok else 'MISSED '} {r['property']} {r['name']:<44} exit={r.get('exit')} tests_pass={r.get('tests_pass')} "
                  f"base_clean={r.get('replay_clean_on_base')} {r.get('violations', [])[:2]} {r.get('error', '')} [{r['wall_s']}s]", flush=True)
            if r.get("output_tail"):
                print("   ", r["output_tail"])
            results.append(r)
    d = os.path.join(boot.VERIF_DIR, "evidence")
    os.makedirs(d, exist_ok=True)
    path = os.path.join(d, "selftest.json")
    prev = {}
    if os.path.exists(path) and (only or props):
        try:
            prev = {r["name"]: r for r in json.load(open(path))["results"]}
        except Exception:  # noqa: BLE001
            prev = {}
    for r in results:
        prev[r["name"]] = r
    allr = sorted(prev.values(), key=lambda r: (r["property"], r["name"]))
    with open(path, "w") as f:
        json.dump({"results": allr, "caught": sum(1 for r in allr if r.get("detected")), "total": len(allr)}, f, indent=1)
    missed = [r["name"] for r in results if not r.get("detected")]
    print(f"selftest: {len(results) - len(missed)}/{len(results)} mutants caught; missed: {missed}")
    return 0 if not missed else 1
