"""Consequences of process-wide state a library call left behind.

A call that changes NumPy's error state (np.seterr), the warnings filters or a pandas
option and does not restore it on every path has changed the behaviour of every later
call in the process.  The state change itself is not what the properties speak about;
its consequence is: a documented call that works in a fresh process no longer does.
So when a run ends with the process-wide state different from the harness baseline,
the small fixed calls below (each works under the baseline on the unchanged tree -
`check.py self-check` verifies that) are repeated under the state that was left
behind; one that raises is reported as a violation of the property whose API it is.
Nothing here runs on a tree that leaves the state alone."""

import warnings

import numpy as np

from . import boot


def _ident(s_):
    return s_


def probes(prop):
    L = boot.lib()
    E = L.experimental
    cfg = lambda **kw: L.BootstrapConfig(**kw)  # noqa: E731
    a = lambda: L.Scores(pos=[0.0, 1.0, 2.0, 2.0], neg=[-1.0, 0.0, 0.5])  # noqa: E731
    b = lambda: L.Scores(pos=[1e-300, 0.5, 3.0], neg=[-2.0, 0.0, 1e-300], score_class="neg", nb_easy_pos=2)  # noqa: E731
    g = lambda: L.GroupScores(pos=[0.0, 1.0, 2.0, 2.5], neg=[-1.0, 0.0, 0.5], pos_groups=["a", "a", "b", "c"],  # noqa: E731
                              neg_groups=["a", "b", "b"])
    out = []
    if prop == "C11":
        for m, kw in (("replacement", {}), ("replacement", {"smoothing": True}), ("single_pass", {}), ("proportion", {"ratio": 0.5}),
                      ("dynamic", {"stratified_sampling": "by_label"})):
            out.append((f"bootstrap_sample({m}, {kw})", lambda m=m, kw=kw: [s().bootstrap_sample(cfg(sampling_method=m, **kw)).cm(0.0) for s in (a, b)]))
        # a constant class: zero bandwidth under smoothing
        out.append(("bootstrap_sample(smoothing) of constant classes",
                    lambda: L.Scores(pos=[1.0, 1.0, 1.0], neg=[0.0, 0.0]).bootstrap_sample(cfg(sampling_method="replacement", smoothing=True)).fnr(0.5)))
    elif prop == "C12":
        out.append(("group_cm / group rates with empty classes", lambda: (g().group_cm([0.0, 1.0]), g().group_fnr(0.0), g().group_fpr(0.0), g().group_tpr(5.0))))
        out.append(("groupwise(fnr)", lambda: L.groupwise("fnr")(g(), threshold=0.0)))
        for st in (None, "by_label", "by_group"):
            out.append((f"GroupScores.bootstrap_sample(replacement, {st})",
                        lambda st=st: g().bootstrap_sample(cfg(sampling_method="replacement", stratified_sampling=st)).group_cm(0.0)))
    elif prop == "C14":
        for bm in ("quantile", "bc", "bca"):
            out.append((f"bootstrap_ci(fnr, {bm})", lambda bm=bm: [s().bootstrap_ci("fnr", threshold=[0.0, 5.0, -5.0], config=cfg(nb_samples=8, bootstrap_method=bm,
                                                                                                                                 sampling_method="replacement")) for s in (a, b)]))
            out.append((f"bootstrap_ci(identity, {bm})", lambda bm=bm: a().bootstrap_ci("tpr", threshold=[0.0, 9.0], config=cfg(nb_samples=4, bootstrap_method=bm, sampling_method=_ident))))
        out.append(("bootstrap_ci(eer)", lambda: a().bootstrap_ci("eer", config=cfg(nb_samples=4, sampling_method="replacement"))))
    elif prop == "C16":
        for s in (a, b):
            for name, kw in (("roc_with_ci", {}), ("roc_with_ci", {"fnr": np.array([0.0, 0.5, 1.0]), "nb_points": 5}), ("pointwise_band_ci", {"nb_points": 5}),
                             ("simultaneous_joint_region_ci", {"nb_points": 5}), ("fixed_width_band_ci", {"nb_points": 10})):
                f = L.roc_with_ci if name == "roc_with_ci" else getattr(E, name)
                out.append((f"{name}({sorted(kw)})", lambda f=f, s=s, kw=kw: f(s(), alpha=0.1, config=cfg(nb_samples=3, bootstrap_method="quantile", sampling_method=_ident), **kw)))
    elif prop == "C18":
        import pandas as pd

        df = lambda: pd.DataFrame({"g": ["a", "a", "b", "b", "c"], "label": [1, 0, 1, 1, 0], "score": [0.0, 1.0, 2.0, 0.5, 1e-300]})  # noqa: E731
        for norm in (None, "by_overall", "by_min"):
            for metric in ("fnr", "ppv", "fpr"):
                out.append((f"showbias({metric}, normalize={norm})", lambda norm=norm, metric=metric: L.showbias(
                    df(), group_columns="g", label_column="label", score_column="score", metric=metric, threshold=[0.0, 0.7, 9.0], normalize=norm,
                    bootstrap_ci=True, bootstrap_config=cfg(nb_samples=4, bootstrap_method="bca", sampling_method="replacement"))))
    elif prop == "C20":
        nd = lambda: E.NormalDataset(mu_pos=1.0, mu_neg=-1.0, sigma_pos=1.0, sigma_neg=2.0, p_pos=0.3, n=20)  # noqa: E731
        out.append(("NormalDataset analytic rates in the tails", lambda: (nd().fnr(np.array([-60.0, 0.0, 60.0])), nd().fpr(np.array([-90.0, 0.0, 90.0])),
                                                                         nd().threshold_at_fnr(np.array([1e-300, 0.5])), nd().roc(fnr=np.array([1e-12, 0.5])))))
        out.append(("NormalDataset.sample", lambda: nd().sample()))
        out.append(("BernoulliDataset.sample", lambda: (E.BernoulliDataset(p=0.0, n=5).sample(random=False), E.BernoulliDataset(p=0.3, n=5).sample())))
        out.append(("CorrelatedBernoullilDataset.sample", lambda: (E.CorrelatedBernoullilDataset(p1=0.5, p2=0.5, rho=0.2, n=8).sample(random=False),
                                                                   E.CorrelatedBernoullilDataset(p1=0.0, p2=1.0, rho=0.0, n=8).sample())))
    return out


def baseline():
    return ({k: "ignore" for k in ("divide", "over", "under", "invalid")}, list(boot._warn0 or []))


def check_after_run(prop):
    """Returns a list of violation dicts (empty when the process-wide state is the baseline's)."""
    err0, warn0 = baseline()
    err1 = dict(np.geterr())
    warn_changed = boot._warn0 is not None and warnings.filters != warn0
    if err1 == err0 and not warn_changed:
        return []
    out = []
    warn1 = list(warnings.filters)
    for desc, call in probes(prop):
        try:
            call()
        except Exception as e:  # noqa: BLE001
            # attributable to the state only if the same call works under the baseline
            boot.reset_process_env()
            try:
                call()
            except Exception:  # noqa: BLE001
                np.seterr(**err1)
                warnings.filters[:] = warn1
                continue
            out.append({"invariant": f"{prop}.later_calls_after_state_leak", "tags": {"error": type(e).__name__},
                        "detail": f"the run left the process with NumPy error state {err1} (harness baseline {err0}) and {len(warnings.filters)} warnings filters "
                                  f"(baseline {len(warn0)}); under that state the documented call {desc}, which works in a fresh process, raises "
                                  f"{type(e).__name__}: {e}"})
            break
    boot.reset_process_env()
    return out


def self_test():
    """Every probe works under the harness baseline on the tree being checked; returns the failures."""
    boot.lib()
    boot.reset_process_env()
    bad = []
    for prop in ("C11", "C12", "C14", "C16", "C18", "C20"):
        for desc, call in probes(prop):
            try:
                call()
            except Exception as e:  # noqa: BLE001
                bad.append(f"{prop} {desc}: {type(e).__name__}: {e}")
    return bad
