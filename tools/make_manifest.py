#!/usr/bin/env python3
"""Writes /verif/MANIFEST.json (kept as a script so the file stays consistent)."""
import json
import os
import sys

HERE = os.path.dirname(os.path.dirname(os.path.abspath(__file__)))
PY = "/venv/bin/python"

CLAIMED = {
    "C10": ("§3 C10", "seeded simulation of call histories on shared objects (1-3 interleaved clients, re-entrant callbacks, line-event interrupts) against a pristine-twin reference model and scalar-call oracle",
            "Histories of deterministic queries and random noise operations on shared Scores/GroupScores/ConfusionMatrix objects; after every step object and caller-array fingerprints must be unchanged and every deterministic result bit-identical to a pristine twin; shape, scalar and elementwise laws checked on every call."),
    "C11": ("§3 C11", "seeded simulation over the process-global NumPy RNG seam with forced-but-legal draw outcomes, stream interference and reseeds; per-sample exact invariants plus an empirical-Bernstein distributional oracle (delta=1e-12 per test)",
            "Every bootstrap sample produced in the explored runs satisfies the well-formedness invariants, including under rare draw outcomes the unit tests can only hope to hit; unbiasedness is tested with an explicit false-alarm budget. Sampling, not proof."),
    "C12": ("§3 C12", "seeded simulation of GroupScores histories (cache fills, swaps, samples of samples) under the RNG seam, line-event interrupts and forced draws; pair-multiset and filter-and-count reference models, pristine twin for the cache",
            "Group labels stay attached and groups partition the data after any explored history, including histories with interrupted cache fills and resamples in which whole groups vanish."),
    "C14": ("§3 C14", "seeded simulation through the sampler/metric callback seams (recording, counting, failing, re-entrant callbacks) and the RNG seam; rows matched to recorded samples, independent CI formulas, replay determinism across interpreters and hash seeds",
            "Each replicate row is tied to the sample object the configured sampler produced, intervals are recomputed from the recorded replicates with an independent implementation, and reproducibility under a fixed seed is established by the simulator's own determinism legs."),
    "C16": ("§3 C16", "seeded simulation of band computations under the RNG seam (forced degenerate resamples) and recording-sampler seam; rectangle-envelope + rule-of-three reference model recomputed from the recorded samples",
            "Bands are recomputed from exactly the resamples the library used and compared to the documented envelope; NaN-freeness, ordering and range are checked under degenerate resamples only a controlled RNG produces."),
    "C18": ("§3 C18", "seeded simulation of showbias under the RNG seam and recording-sampler seam; independent per-group filter-and-count reference, normalised-replicate CI reference",
            "Labels, values, normalisation and intervals are recomputed independently from the frame and from the recorded resamples for every explored frame/configuration/seed."),
    "C20": ("§3 C20", "seeded simulation through the explicit rng seam (faithful seeded generator and adversarial admissible generator) and the default_rng entropy seam; analytic clauses evaluated as by-products",
            "sample() clauses hold for every explored generator behaviour including adversarial shuffles/draws; analytic inverse relations are checked on each run's parameters as a by-product (no simulation content)."),
}

NA = {
    "C01": "pure function of (scores, threshold, flags): no schedule, history, fault or random state in the quantifier, so a simulated run would only be input generation",
    "C02": "pure function of (scores, target, flags, method); nothing for a simulator to schedule or fault",
    "C03": "same pure functions as C02 at boundary arguments",
    "C04": "pure elementwise arithmetic on a matrix argument",
    "C05": "pure functions of labels/predictions/matrix; class order comes from np.unique or the caller, not from set iteration",
    "C06": "deterministic bisection over pure threshold functions; no external input, clock or state",
    "C07": "pure function of the scores",
    "C08": "metamorphic relation between two pure evaluations (pairs of inputs, not interleavings)",
    "C09": "relation between two pure evaluations",
    "C13": "utils.bootstrap_ci is a pure function of (replicates, estimate, alpha, method); its formulas are re-implemented as the reference model inside C14/C16/C18 but C13 itself is not claimed",
    "C15": "roc() is a pure function of its arguments",
    "C17": "pure function of (x, y, t) / (scores, metric, points)",
    "C19": "pure delegation plus a range check",
}


def main():
    built = [p for p in sorted(CLAIMED) if os.path.exists(os.path.join(HERE, "simkit", "props", p.lower() + ".py"))]
    checks = []
    for p in built:
        ref, tech, text = CLAIMED[p]
        checks.append({
            "property_id": p,
            "quick_cmd": f"{PY} check.py {p} --tier quick",
            "thorough_cmd": f"{PY} check.py {p} --tier thorough",
            "evidence_file": f"/verif/evidence/{p}.json",
            "replay_cmd_template": f"{PY} check.py replay {{path}}",
            "engine": "simkit",
            "level_claimed": {"category": "exploration", "text": text, "design_ref": "DESIGN.md " + ref},
            "level_note": "Trusted base: CPython 3.12, numpy/scipy/pandas in /venv, the simulator (simkit) and its reference models. "
                          "Seeded search, not exhaustive; forced draw outcomes are restricted to the support of the requested distribution. "
                          "Library code is imported from /repo's working tree on every invocation (nothing is cached or compiled).",
            "technique": "deterministic simulation with fault injection: " + tech,
        })
    pending = [p for p in sorted(CLAIMED) if p not in built]
    m = {
        "version": 1,
        "setup_cmd": f"{PY} -c \"import numpy, scipy, pandas, jsonschema; import sys; sys.path.insert(0, '/verif'); import simkit\" && {PY} check.py self-check",
        "hooks": {
            "guard": "SCORE_ANALYSIS_VERIF",
            "enable": "no source hooks were needed: every seam (numpy.random module attributes, sampler/metric callables, rng= argument, sys.settrace) already exists; check.py sets SCORE_ANALYSIS_VERIF=1 for form",
            "baseline_off_cmd": "cd /repo && /venv/bin/python -m pytest -ra -q -p no:cacheprovider --timeout=900 --continue-on-collection-errors",
            "source_commits": [],
            "add_only": True,
        },
        "engines": [{"name": "simkit", "path": "/verif/simkit", "serves_properties": built,
                     "kind_free_text": "hand-written deterministic simulator: seeded scenario generator, explicit JSON scenarios as replay files, RNG/callback/trace seams, delta-debugging minimiser, reference-model oracles"}],
        "checks": checks,
        "not_applicable": [{"property_id": k, "reason": v} for k, v in sorted(NA.items())],
        "notes": ("Fix commits in /repo (unguarded, 'fix:'): see known_findings.json. "
                  + (f"Claimed in DESIGN.md but check not registered yet: {pending}. " if pending else "")
                  + "Exit codes: 0 held, 1 violation (with VIOLATION line), 2/3 harness error (never with a VIOLATION line)."),
    }
    with open(os.path.join(HERE, "MANIFEST.json"), "w") as f:
        json.dump(m, f, indent=1)
    try:
        import jsonschema
        jsonschema.validate(m, json.load(open(os.path.join(HERE, "schemas", "MANIFEST.schema.json"))))
        print("MANIFEST.json valid;", "checks:", built, "pending:", pending)
    except ImportError:
        print("written (jsonschema not available to validate)")


if __name__ == "__main__":
    sys.exit(main())
