#!/usr/bin/env python3
"""Confirms a seeded defect delivered by a sub-agent and runs the checks against it.

  eval_seed.py <worktree> <seed dir> <seed id> <property> [--checks C10,C11] [--tier quick]

1. in the scratch worktree: apply the patch, run the unit tests (must pass), run the
   demonstration (must exit 1), revert, run the demonstration again (must exit 0);
2. apply the patch to /repo, run the registered quick check(s), undo it straight away;
3. store patch.diff, demo.py, notes.txt and meta.json under /verif/seeded/<seed id>/.
"""
import argparse
import json
import os
import shutil
import subprocess
import sys
import time

VERIF = os.path.dirname(os.path.dirname(os.path.abspath(__file__)))
PY = "/venv/bin/python"


def sh(cmd, cwd=None, env=None, timeout=3600):
    p = subprocess.run(cmd, shell=True, cwd=cwd, env=env, capture_output=True, text=True, timeout=timeout)
    return p.returncode, p.stdout, p.stderr


def main():
    ap = argparse.ArgumentParser()
    ap.add_argument("worktree")
    ap.add_argument("seed_dir")
    ap.add_argument("seed_id")
    ap.add_argument("prop")
    ap.add_argument("--checks", default=None)
    ap.add_argument("--tier", default="quick")
    ap.add_argument("--skip-confirm", action="store_true")
    ap.add_argument("--history", default=None, help="note on how the checks were strengthened for this change")
    a = ap.parse_args()
    wt, sd = a.worktree, a.seed_dir
    patch = os.path.join(sd, "patch.diff")
    demo = os.path.join(sd, "demo.py")
    meta = {"seed_id": a.seed_id, "breaks_property": a.prop, "source": "independent sub-agent given only the property text and a scratch worktree"}
    old_meta = os.path.join(VERIF, "seeded", a.seed_id, "meta.json")
    if a.skip_confirm and os.path.exists(old_meta):
        # re-evaluation after strengthening: keep the confirmation recorded by the first evaluation
        prev = json.load(open(old_meta))
        meta.update({k: v for k, v in prev.items() if k in ("patch_applies", "tests_pass_with_change", "tests_tail", "demo_exit_with_change",
                                                            "demo_exit_without_change", "demo_output_with_change", "confirmed", "history")})
    if a.history:
        meta["history"] = a.history
    env = {k: v for k, v in os.environ.items() if k not in ("PYTHONPATH",)}
    env["PYTHONDONTWRITEBYTECODE"] = "1"
    if not a.skip_confirm:
        # the demonstration and the unit tests must import the worktree's copy of the library, not the installed /repo
        wenv = dict(env, PYTHONPATH=os.path.abspath(wt))
        sh("git checkout -- . ", cwd=wt)
        rc, out, err = sh(f"git apply --check {patch}", cwd=wt)
        meta["patch_applies"] = rc == 0
        if rc != 0:
            print("patch does not apply:", err)
            return 2
        rc0, out0, _ = sh(f"{PY} {demo}", cwd=wt, env=wenv)
        sh(f"git apply {patch}", cwd=wt)
        rc, out, err = sh(f"{PY} -m pytest -q -p no:cacheprovider -x", cwd=wt, env=wenv)
        meta["tests_pass_with_change"] = rc == 0
        meta["tests_tail"] = (out.strip().splitlines() or [""])[-1]
        rc1, out1, _ = sh(f"{PY} {demo}", cwd=wt, env=wenv)
        sh("git checkout -- . ", cwd=wt)
        rc2, out2, _ = sh(f"{PY} {demo}", cwd=wt, env=wenv)
        meta["demo_exit_without_change"] = [rc0, rc2]
        meta["demo_exit_with_change"] = rc1
        meta["demo_output_with_change"] = out1.strip().splitlines()[-6:]
        meta["confirmed"] = bool(rc == 0 and rc1 == 1 and rc0 == 0 and rc2 == 0)
        print(f"confirm: tests_pass={rc == 0} demo_with={rc1} demo_without={rc0},{rc2} -> confirmed={meta['confirmed']}")
    # ---- run the checks against /repo with the patch applied
    checks = (a.checks or a.prop).split(",")
    rc, out, err = sh("git status --porcelain", cwd="/repo")
    if out.strip():
        print("/repo is not clean; refusing", out)
        return 2
    results = {}
    # the checks run against a scratch copy of /repo with the patch applied (VERIF_REPO), so that /repo itself stays
    # untouched while other runs are using it
    import tempfile
    scratch = tempfile.mkdtemp(prefix="seed-eval-repo-")
    root = os.path.join(scratch, "repo")
    shutil.copytree("/repo", root, ignore=shutil.ignore_patterns(".git", "__pycache__", "notebooks", "images", "docs"))
    try:
        rc, out, err = sh(f"git apply {patch}", cwd=root)
        if rc != 0:
            rc, out, err = sh(f"patch -p1 -F3 -s < {patch}", cwd=root)  # /repo has moved on (later fix: commits): apply with fuzz
            meta["applied_with_fuzz"] = rc == 0
        if rc != 0:
            print("cannot apply to the scratch copy", err)
            return 2
        for c in checks:
            t0 = time.time()
            tmp_ev = f"/tmp/seed-eval-ev-{a.seed_id}-{c}"
            tmp_rp = f"/tmp/seed-eval-rp-{a.seed_id}-{c}"
            e2 = dict(env, VERIF_EVIDENCE_DIR=tmp_ev, VERIF_REPLAY_DIR=tmp_rp, VERIF_REPO=root)
            rc, out, err = sh(f"{PY} check.py {c} --tier {a.tier}", cwd=VERIF, env=e2)
            lines = [ln for ln in out.splitlines() if ln.startswith(("VIOLATION", "  invariant=", "HARNESS", "KNOWN"))]
            results[c] = {"exit": rc, "wall_s": round(time.time() - t0, 1), "lines": [ln[:400] for ln in lines[:8]]}
            print(f"check {c}: exit={rc} ({results[c]['wall_s']}s)")
            for ln in lines[:6]:
                print("   ", ln[:300])
            # a replay found on the mutant must pass on the unchanged tree
            shutil.rmtree(tmp_ev, ignore_errors=True)
            results[c]["replays"] = [ln.split("replay=")[1].strip() for ln in lines if ln.startswith("VIOLATION")]
    finally:
        shutil.rmtree(scratch, ignore_errors=True)
    for c, r in results.items():
        clean = []
        for rp in r.get("replays", []):
            rc, out, err = sh(f"{PY} check.py replay {rp} --quiet", cwd=VERIF, env=env)
            clean.append(rc == 0)
        r["replays_pass_on_unchanged_tree"] = clean
        shutil.rmtree(f"/tmp/seed-eval-rp-{a.seed_id}-{c}", ignore_errors=True)
    meta["checks"] = results
    meta["caught_by"] = [c for c, r in results.items() if r["exit"] == 1 and r["replays"]]
    dst = os.path.join(VERIF, "seeded", a.seed_id)
    os.makedirs(dst, exist_ok=True)
    for f in ("patch.diff", "demo.py", "notes.txt"):
        if os.path.exists(os.path.join(sd, f)):
            shutil.copy(os.path.join(sd, f), os.path.join(dst, f))
    notes = os.path.join(sd, "notes.txt")
    meta["needs_to_manifest"] = open(notes).read().strip()[:1500] if os.path.exists(notes) else ""
    meta["what_was_run"] = [
        f"scratch worktree: git apply patch.diff; {PY} -m pytest -q -p no:cacheprovider (must pass); {PY} demo.py (must exit 1); git checkout -- .; {PY} demo.py (must exit 0)",
        f"scratch copy of /repo with patch.diff applied (VERIF_REPO): {PY} check.py <check> --tier {a.tier}; replay of each reported violation on the unchanged /repo (must not reproduce)",
    ]
    with open(os.path.join(dst, "meta.json"), "w") as f:
        json.dump(meta, f, indent=1)
    print(f"stored in {dst}; caught_by={meta['caught_by']}")
    return 0


if __name__ == "__main__":
    sys.exit(main())
