#!/usr/bin/env python3
"""Regression run over all seeded changes in /verif/seeded: each patch is applied to a
scratch copy of /repo (never to /repo itself), the quick check of the property it
breaks is run against that copy (VERIF_REPO), and the outcome is written to
/verif/evidence/seeded.json.  Scratch copies live under /tmp and are removed."""
import glob
import json
import os
import shutil
import subprocess
import sys
import tempfile
import time
from concurrent.futures import ThreadPoolExecutor

VERIF = os.path.dirname(os.path.dirname(os.path.abspath(__file__)))
PY = "/venv/bin/python"


def one(d):
    meta = json.load(open(os.path.join(d, "meta.json")))
    prop = meta["breaks_property"]
    t0 = time.time()
    tmp = tempfile.mkdtemp(prefix="simkit-seed-")
    root = os.path.join(tmp, "repo")
    out = {"seed_id": meta["seed_id"], "property": prop}
    if meta.get("outside_quantifier"):
        out.update({"skipped": "manifests only outside the property's quantifier", "caught": None})
        shutil.rmtree(tmp, ignore_errors=True)
        return out
    if meta.get("superseded_by_fix"):
        # the defect this change planted coincided with a genuine one that a later fix: commit repaired; it has no effect any more
        out.update({"skipped": "superseded by fix " + meta["superseded_by_fix"], "caught": None})
        shutil.rmtree(tmp, ignore_errors=True)
        return out
    try:
        shutil.copytree("/repo", root, ignore=shutil.ignore_patterns(".git", "__pycache__", "notebooks", "images", "docs"))
        p = subprocess.run(["git", "apply", os.path.join(d, "patch.diff")], cwd=root, capture_output=True, text=True)
        if p.returncode != 0:
            # /repo has moved on since the change was delivered (later fix: commits next to the patched lines): apply with fuzz
            p = subprocess.run(f"patch -p1 -F3 -s < {os.path.join(d, 'patch.diff')}", shell=True, cwd=root, capture_output=True, text=True)
            out["applied_with_fuzz"] = p.returncode == 0
        if p.returncode != 0:
            out["error"] = "patch does not apply: " + p.stderr[-300:]
            return out
        env = {**os.environ, "VERIF_REPO": root, "VERIF_WORKERS": os.environ.get("SEEDED_WORKERS", "5"),
               "VERIF_REPLAY_DIR": os.path.join(tmp, "replays"), "VERIF_EVIDENCE_DIR": os.path.join(tmp, "evidence")}
        env.pop("SIMKIT_REEXEC", None)
        # a change delivered for one property that in fact breaks another one is decided by that other check (meta.decided_by)
        for prop_ in meta.get("decided_by") or [prop]:
            p = subprocess.run([PY, os.path.join(VERIF, "check.py"), prop_, "--tier", "quick"], cwd=VERIF, env=env, capture_output=True, text=True, timeout=3600)
            out["decided_by"] = prop_
            if p.returncode == 1:
                break
        out["exit"] = p.returncode
        out["invariants"] = sorted({ln.strip().split()[0].split("=")[1] for ln in p.stdout.splitlines() if ln.strip().startswith("invariant=")})
        out["caught"] = p.returncode == 1 and any(ln.startswith("VIOLATION") for ln in p.stdout.splitlines())
        s = [ln for ln in p.stdout.splitlines() if ln.startswith("simkit: ") and "violation_runs" in ln]
        if s:
            out["violation_runs"] = int(s[-1].split("violation_runs=")[1].split()[0])
        if not out["caught"]:
            out["tail"] = p.stdout.strip().splitlines()[-4:]
    except Exception as e:  # noqa: BLE001
        out["error"] = repr(e)
    finally:
        shutil.rmtree(tmp, ignore_errors=True)
    out["wall_s"] = round(time.time() - t0, 1)
    return out


def main():
    dirs = sorted(glob.glob(os.path.join(VERIF, "seeded", "*")))
    only = sys.argv[1] if len(sys.argv) > 1 else None
    if only:
        dirs = [d for d in dirs if only in d]
    res = []
    with ThreadPoolExecutor(max_workers=int(os.environ.get("SEEDED_JOBS", "3"))) as ex:
        for r in ex.map(one, dirs):
            print(f"{'SKIPPED' if r.get('skipped') else 'CAUGHT' if r.get('caught') else 'MISSED'} {r['seed_id']:<14} exit={r.get('exit')} runs={r.get('violation_runs')} {r.get('invariants')} {r.get('error', '')} [{r.get('wall_s')}s]", flush=True)
            res.append(r)
    if not only:
        with open(os.path.join(VERIF, "evidence", "seeded.json"), "w") as f:
            json.dump({"results": res, "caught": sum(1 for r in res if r.get("caught")), "skipped": sum(1 for r in res if r.get("skipped")),
                       "total": len(res)}, f, indent=1)
    print(f"seeded: {sum(1 for r in res if r.get('caught'))}/{len(res)} caught")
    return 0


if __name__ == "__main__":
    sys.exit(main())
